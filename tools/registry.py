"""Registry of checks: property id -> harnesses, evidence texts.  MANIFEST.json is
generated from this file by tools/gen_manifest.py."""

A_COMMON = [
    "A1: libstdc++/glibc implement unique_lock, shared_lock, condition_variable, shared_ptr, promise/future, "
    "map correctly given correct pthread leaves; the leaves (mutex, rwlock, condvar, yield, sleep, clock) are "
    "replaced by the lock/time models of DESIGN.md 2.2/2.6",
    "A2: plain accesses performed inside libstdc++.so are not seen by the race detector / state hash",
    "A3: try_lock never fails spuriously",
    "A5: bounded programs (threads, operations per thread) and deviation bounds as reported in coverage",
    "A6: g++ 12.2 -O1 with -fsanitize=thread instrumentation routed to our own runtime",
]
A_MM = "A4: operational C++11 memory-model fragment (no load buffering / out-of-thin-air executions)"

SCHED_RULE = (
    "every client program of the stated alphabet/size is generated (modulo thread symmetry); for each, "
    "stateless DFS over all interleavings of the visible operations of the real headers (pthread leaves, "
    "every std::atomic op, harness points) up to the preemption bound, plus all time-out placements, "
    "bounded spurious wake-ups / weak-CAS failures / stale reads; pruned only by the happens-before-signature "
    "state cache. A program counts as non-trivial when its schedules produced >=2 distinct observable "
    "outcomes or >=2 distinct states."
)

PROPERTIES = {}


def prop(pid, harnesses, rule, explanation, assumptions, level_text, level_note, technique, design_ref):
    PROPERTIES[pid] = dict(harnesses=harnesses, rule=rule, explanation=explanation, assumptions=assumptions,
                           level_text=level_text, level_note=level_note, technique=technique,
                           design_ref=design_ref)


prop("C10",
     [dict(name="C10", src="C10.cpp", deadline=dict(quick=60, thorough=600))],
     SCHED_RULE + " Alphabet: wait / arrive / arrive_and_wait, 1-2 ops per thread, 2-3 threads (4 thorough), "
     "count 1-3, total arrivals in [count, count+1]; programs that block under the specification are excluded.",
     "Real Latch.hpp under the controlled scheduler. Oracles: at every return of wait/arrive_and_wait the number "
     "of arrive calls invoked is >= count; arrive never enters a condition wait; deadlock detector (lost wake-up); "
     "a late waiter on an open latch does not block; race detector.",
     A_COMMON,
     "Exhaustive exploration of all interleavings (preemption-bounded, iterated) of every small client program "
     "over the real Latch implementation, including the window between the unlocked fast-path check and cv.wait, "
     "and spurious wake-ups.",
     "Bounded threads/ops; lock and condvar leaves modelled; see assumptions in evidence.",
     "stateless model checking of the implementation: preemption-bounded DFS over a controlled scheduler",
     "DESIGN.md 4/C10")


prop("C09",
     [dict(name="C09", src="C09.cpp", deadline=dict(quick=60, thorough=600))],
     SCHED_RULE + " Programs: N=2..3 (4 thorough) participants, G=2..3 (4) generations, every assignment of "
     "drop-outs (wait_and_drop as a thread's last call at any generation, at least one thread stays), with and "
     "without a scheduling point between consecutive calls; spurious wake-ups S<=2.",
     "Real Barrier.hpp under the controlled scheduler. Oracles: ghost arrival counters per generation: when a "
     "thread's g-th call returns, exactly all participants of generation g have arrived; all participants of every "
     "generation return (deadlock detector = lost wake-up / generation mix-up); race detector on the counters.",
     A_COMMON,
     "Exhaustive exploration of all interleavings (preemption-bounded, iterated) and spurious wake-ups of every "
     "small multi-generation barrier program with drop-outs over the real implementation.",
     "Bounded participants/generations; mutex/condvar leaves modelled.",
     "stateless model checking of the implementation: preemption-bounded DFS over a controlled scheduler",
     "DESIGN.md 4/C09")


prop("C11",
     [dict(name="C11", src="C11.cpp", deadline=dict(quick=90, thorough=900))],
     SCHED_RULE + " Alphabet: activate, trigger, reset, wait, wait_for, waitActivation, wait_forActivation, "
     "isTriggered, isActive; initial state active/inactive; all 2-thread programs with <=2 ops per thread and all "
     "3-thread programs with 1 op per thread that contain a waiting operation (thorough adds 3 threads with one "
     "2-op thread and mutator-only programs); every timed wait may time out at any point; spurious wake-ups.",
     "Real TriggerVariable.hpp under the controlled scheduler with a virtual clock. Oracles over a totally ordered "
     "invocation/return log: (1) wait returns only if a trigger/reset follows the activation in force; (2) "
     "waitActivation returns only after activation; (3) timed forms report false only if the event had not "
     "happened; (4) trigger on an inactive variable fails, isActive/isTriggered agree with the life cycle; (5) at "
     "quiescence no waiter is blocked although its event happened without re-activation (lost wake-up). Premises "
     "use returned-before-invoked, conclusions tolerate overlap.",
     A_COMMON,
     "Exhaustive exploration of all interleavings, time-out placements and spurious wake-ups of every small client "
     "program over the real TriggerVariable, with per-execution necessary-condition oracles and a quiescence "
     "(lost wake-up) check.",
     "Bounded threads/ops; mutex/condvar/clock leaves modelled.",
     "stateless model checking of the implementation: preemption-bounded DFS over a controlled scheduler",
     "DESIGN.md 4/C11")


prop("C03",
     [dict(name="C03", src="C03.cpp", deadline=dict(quick=90, thorough=900))],
     SCHED_RULE + " Programs: 1-2 (3 thorough) writers x 1-2 modify calls, 1-2 readers x 1-3 acquisitions through "
     "each of the four shared-acquisition forms, with and without overlapping handles, commuting and non-commuting "
     "functors.",
     "Real lr_guarded<Pair> (two-word payload with scheduling points inside functor, copy and reads). Oracles: "
     "ghost access windows per copy (functor vs reader), torn pair, value stable while a handle is held, freshness "
     "(>= modifies returned before the acquisition began, <= modifies invoked when it returned), per-reader "
     "monotonicity, final value = number of modifies / one of the sequential compositions, both copies agree, "
     "deadlock/livelock detector, vector-clock race detector on both copies. All atomics are seq_cst, so SC "
     "exploration plus race freedom covers the memory-model clause (DRF-SC).",
     A_COMMON + [A_MM],
     "Exhaustive exploration of all interleavings (preemption-bounded, iterated) of the atomic steps of modify "
     "with lock_shared and handle release for every small writer/reader program over the real lr_guarded.",
     "Bounded writers/readers/ops; mutex and yield modelled; spin loops bounded by the yield rule.",
     "stateless model checking of the implementation: preemption-bounded DFS over a controlled scheduler",
     "DESIGN.md 4/C03")


prop("C04",
     [dict(name="C04", src="C04.cpp", deadline=dict(quick=90, thorough=900))],
     SCHED_RULE + " Programs: 1-2 (3 thorough) writers with every sequence of <=2 operations over {commit, cancel, "
     "move-construct + commit}, 0-2 readers taking 1-2 snapshots through each shared-acquisition form, kept across "
     "later commits or dropped.",
     "Real cow_guarded<Pair>; shared_ptr reference counts are atomics and therefore scheduling points. Oracles: "
     "snapshot torn-pair / unchanged at every re-read while held (payload destructor poisons, arena quarantines "
     "freed payloads: any touch is a use-after-free report), write handles start from a value between commits "
     "completed before lock() and commits begun at its return, writer sections (lock..release) never overlap, "
     "snapshot freshness and per-reader monotonicity, final value = number of commits (cancel excluded), writer "
     "lock free afterwards, every payload freed exactly once (arena accounting), race detector.",
     A_COMMON + [A_MM],
     "Exhaustive exploration of all interleavings (preemption-bounded, iterated) of writers (commit/cancel/move) "
     "and snapshot readers over the real cow_guarded, including the reference-count atomics.",
     "Bounded writers/readers/ops; mutex and yield modelled.",
     "stateless model checking of the implementation: preemption-bounded DFS over a controlled scheduler",
     "DESIGN.md 4/C04")
