"""Registry of checks: property id -> harnesses, evidence texts.  MANIFEST.json is
generated from this file by tools/gen_manifest.py."""

A_COMMON = [
    "A1: libstdc++/glibc implement unique_lock, shared_lock, condition_variable, shared_ptr, promise/future, "
    "map correctly given correct pthread leaves; the leaves (mutex, rwlock, condvar, yield, sleep, clock) are "
    "replaced by the lock/time models of DESIGN.md 2.2/2.6",
    "A2: plain accesses performed inside libstdc++.so are not seen by the race detector / state hash",
    "A3: try_lock never fails spuriously",
    "A5: bounded programs (threads, operations per thread) and deviation bounds as reported in coverage",
    "A6: g++ 12.2 -O1 with -fsanitize=thread instrumentation routed to our own runtime",
    "A7: the library keeps no mutable process-wide static state across uses (true of the tree; the trip lines are "
    "reset by the C19 harness): many executions share one process, and state that survives an execution makes the "
    "check stop with a machinery error (exit 2) instead of a verdict. thread_local state is modelled: one copy per "
    "client thread, fresh in every execution, destroyed at thread exit",
]
A_MM = "A4: operational C++11 memory-model fragment (no load buffering / out-of-thin-air executions)"

SCHED_RULE = (
    "every client program of the stated alphabet/size is generated (modulo thread symmetry); for each, "
    "stateless DFS over all interleavings of the visible operations of the real headers (pthread leaves, "
    "every std::atomic op, harness points) up to the preemption bound, plus all time-out placements, "
    "bounded spurious wake-ups / weak-CAS failures / stale reads; pruned only by the happens-before-signature "
    "state cache. A program counts as non-trivial when its schedules produced >=2 distinct observable "
    "outcomes or >=2 distinct states."
)

PROPERTIES = {}


def prop(pid, harnesses, rule, explanation, assumptions, level_text, level_note, technique, design_ref):
    PROPERTIES[pid] = dict(harnesses=harnesses, rule=rule, explanation=explanation, assumptions=assumptions,
                           level_text=level_text, level_note=level_note, technique=technique,
                           design_ref=design_ref)


prop("C10",
     [dict(name="C10", src="C10.cpp", deadline=dict(quick=60, thorough=480))],
     SCHED_RULE + " Alphabet: wait / arrive / arrive_and_wait, 1-2 ops per thread, 2-3 threads (4 thorough), "
     "count 1-3, total arrivals in [count, count+1]; programs that block under the specification are excluded.",
     "Real Latch.hpp under the controlled scheduler. Oracles: at every return of wait/arrive_and_wait the number "
     "of arrive calls invoked is >= count; arrive never enters a condition wait; deadlock detector (lost wake-up); "
     "a late waiter on an open latch does not block; race detector.",
     A_COMMON,
     "Exhaustive exploration of all interleavings (preemption-bounded, iterated) of every small client program "
     "over the real Latch implementation, including the window between the unlocked fast-path check and cv.wait, "
     "and spurious wake-ups.",
     "Bounded threads/ops; lock and condvar leaves modelled; see assumptions in evidence.",
     "stateless model checking of the implementation: preemption-bounded DFS over a controlled scheduler",
     "DESIGN.md 4/C10")


prop("C09",
     [dict(name="C09", src="C09.cpp", deadline=dict(quick=60, thorough=480))],
     SCHED_RULE + " Programs: N=2..3 (4 thorough) participants, G=2..3 (4) generations, every assignment of "
     "drop-outs (wait_and_drop as a thread's last call at any generation, at least one thread stays), with and "
     "without a scheduling point between consecutive calls; spurious wake-ups S<=2.",
     "Real Barrier.hpp under the controlled scheduler. Oracles: ghost arrival counters per generation: when a "
     "thread's g-th call returns, exactly all participants of generation g have arrived; all participants of every "
     "generation return (deadlock detector = lost wake-up / generation mix-up); race detector on the counters.",
     A_COMMON,
     "Exhaustive exploration of all interleavings (preemption-bounded, iterated) and spurious wake-ups of every "
     "small multi-generation barrier program with drop-outs over the real implementation.",
     "Bounded participants/generations; mutex/condvar leaves modelled.",
     "stateless model checking of the implementation: preemption-bounded DFS over a controlled scheduler",
     "DESIGN.md 4/C09")


prop("C11",
     [dict(name="C11", src="C11.cpp", deadline=dict(quick=90, thorough=480))],
     SCHED_RULE + " Alphabet: activate, trigger, reset, wait, wait_for, waitActivation, wait_forActivation, "
     "isTriggered, isActive; initial state active/inactive; all 2-thread programs with <=2 ops per thread and all "
     "3-thread programs with 1 op per thread that contain a waiting operation (thorough adds 3 threads with one "
     "2-op thread and mutator-only programs), plus 4-thread programs in which a reset overlaps a complete "
     "reset+activate cycle made by other threads; every timed wait may time out at any point; spurious wake-ups.",
     "Real TriggerVariable.hpp under the controlled scheduler with a virtual clock. Oracles over a totally ordered "
     "invocation/return log: (1) wait returns only if a trigger/reset follows the activation in force; (2) "
     "waitActivation returns only after activation; (3) timed forms report false only if the event had not "
     "happened; (4) trigger on an inactive variable fails, isActive/isTriggered agree with the life cycle; (5) at "
     "quiescence no waiter is blocked although its event happened without re-activation (lost wake-up). Premises "
     "use returned-before-invoked, conclusions tolerate overlap. (3b) ordering of the critical sections on the "
     "variable's two mutexes (lock-model acquisition sequence numbers): a timed wait that gave up after trigger's "
     "critical section must have seen the flag, and after reset() returned the variable is inactive unless an "
     "activate() took activeLock after reset's last acquisition.",
     A_COMMON,
     "Exhaustive exploration of all interleavings, time-out placements and spurious wake-ups of every small client "
     "program over the real TriggerVariable, with per-execution necessary-condition oracles and a quiescence "
     "(lost wake-up) check.",
     "Bounded threads/ops; mutex/condvar/clock leaves modelled.",
     "stateless model checking of the implementation: preemption-bounded DFS over a controlled scheduler",
     "DESIGN.md 4/C11")


prop("C03",
     [dict(name="C03", src="C03.cpp", deadline=dict(quick=90, thorough=480))],
     SCHED_RULE + " Programs: 1-2 (3 thorough) writers x 1-2 modify calls, 1-2 readers x 1-3 acquisitions through "
     "each of the four shared-acquisition forms, with and without overlapping handles, commuting and non-commuting "
     "functors; functors that throw half-way on their first / second application; modify() called from a destructor "
     "while another exception is propagating (std::uncaught_exceptions() > 0); scale: one reader keeping 256 "
     "(thorough: 65536) shared handles at once while a writer modifies.",
     "Real lr_guarded<Pair> (two-word payload with scheduling points inside functor, copy and reads). Oracles: "
     "ghost access windows per copy (functor vs reader), torn pair, value stable while a handle is held, freshness "
     "(>= modifies returned before the acquisition began, <= modifies invoked when it returned), per-reader "
     "monotonicity, final value = number of modifies / one of the sequential compositions, both copies agree, "
     "deadlock/livelock detector, vector-clock race detector on both copies. All atomics are seq_cst, so SC "
     "exploration plus race freedom covers the memory-model clause (DRF-SC).",
     A_COMMON + [A_MM],
     "Exhaustive exploration of all interleavings (preemption-bounded, iterated) of the atomic steps of modify "
     "with lock_shared and handle release for every small writer/reader program over the real lr_guarded.",
     "Bounded writers/readers/ops; mutex and yield modelled; spin loops bounded by the yield rule.",
     "stateless model checking of the implementation: preemption-bounded DFS over a controlled scheduler",
     "DESIGN.md 4/C03")


prop("C04",
     [dict(name="C04", src="C04.cpp", deadline=dict(quick=90, thorough=480))],
     SCHED_RULE + " Programs: 1-2 (3 thorough) writers with every sequence of <=2 operations over {commit, cancel, "
     "move-construct + commit, move-construct + cancel, user code throws while holding the handle (released by stack "
     "unwinding)}, 0-2 readers taking 1-2 snapshots through each shared-acquisition form, kept across "
     "later commits or dropped.",
     "Real cow_guarded<Pair>; shared_ptr reference counts are atomics and therefore scheduling points. Oracles: "
     "snapshot torn-pair / unchanged at every re-read while held (payload destructor poisons, arena quarantines "
     "freed payloads: any touch is a use-after-free report), write handles start from a value between commits "
     "completed before lock() and commits begun at its return, writer sections (lock..release) never overlap, "
     "snapshot freshness and per-reader monotonicity, final value = number of commits (cancel excluded), writer "
     "lock free afterwards, every payload freed exactly once (arena accounting), race detector.",
     A_COMMON + [A_MM],
     "Exhaustive exploration of all interleavings (preemption-bounded, iterated) of writers (commit/cancel/move) "
     "and snapshot readers over the real cow_guarded, including the reference-count atomics.",
     "Bounded writers/readers/ops; mutex and yield modelled.",
     "stateless model checking of the implementation: preemption-bounded DFS over a controlled scheduler",
     "DESIGN.md 4/C04")


prop("C05",
     [dict(name="C05", src="rcu.cpp", cxxflags=["-DMODE_C05"], deadline=dict(quick=100, thorough=480)),
      dict(name="C05_allocfaults", src="rcu.cpp", cxxflags=["-DMODE_C05", "-DALLOC_FAULTS"], deadline=dict(quick=60, thorough=300),
           no_until_exhaustive=True)],
     SCHED_RULE + " Programs: list prefilled with 2-3 elements; 1-2 traversers (read or write handle) pausing on "
     "each element, an eraser (1st / 2nd / last / all elements, double erase, erase+push), 0-2 short-lived handles "
     "whose release triggers reclamation, second erasers/pushers; programs starting from an EMPTY list in which a "
     "reader's handle is first used before anything was inserted and stays in use across another thread's push; "
     "scale programs (5 elements all erased + short handles, and 7 short handles, behind a handle that stays held); weak-CAS failures and stale reads of the relaxed "
     "log-head load are deviations of the same budget. Second harness: the same programs over an allocator whose "
     "n-th allocation fails (every n, one failure per run; the failed operation is caught and the handle reused), "
     "explored with up to 1 (thorough 2) further deviations.",
     "Real rcu_guarded<rcu_list<Val>>. Oracles: quarantine arena (never reuses freed memory within an execution; "
     "any instrumented plain or atomic access to a freed node or log record is reported), element check word, the "
     "statement taken literally (no erased node is freed while a handle whose first access returned before that "
     "erase was invoked is alive - evaluated from totally ordered stamps), final contents vs sequential reference, "
     "all memory freed after list destruction, race detector.",
     A_COMMON + [A_MM],
     "Exhaustive exploration of all interleavings (deviation-bounded, iterated) of registration CAS, unlink stores, "
     "log push, owner scans and frees for every small traverser/eraser/reaper program over the real rcu_list.",
     "Bounded threads/ops; quarantine covers instrumented accesses only (A2).",
     "stateless model checking of the implementation: deviation-bounded DFS over a controlled scheduler",
     "DESIGN.md 4/C05")


prop("C12",
     [dict(name="C12", src="rcu.cpp", cxxflags=["-DMODE_C12"], deadline=dict(quick=100, thorough=480))],
     "Sequential part: every operation sequence up to depth 5 (6 thorough) over {push_front, push_back, "
     "emplace_front, emplace_back, begin, ++it, erase(it), erase(same it again), traverse} with fresh values on a "
     "real list, compared step by step (iterator position, iterator returned by erase, traversal contents) with a "
     "reference std::vector. Concurrent part: " + SCHED_RULE + " Programs: 1-2 traversers (read/write handle) "
     "against 1-2 mutator threads (push/emplace front/back, erase 1st/2nd/last/all, double erase).",
     "Real rcu_list under the controlled scheduler. Oracles: traversals return only inserted values, in strictly "
     "increasing position rank (list order, no duplicates), including every value that was in the list for the "
     "whole traversal (stamps: inserted-returned-before / erase-invoked-after); final contents equal the "
     "sequential execution of the mutations in writer-lock acquisition order (acquisition sequence numbers from "
     "the lock model; two mutations with the same number = writers not serialised); race detector for publication "
     "(node fully constructed/linked before reachable); arena.",
     A_COMMON + [A_MM],
     "Exhaustive enumeration of operation sequences (bounded depth) against a reference list plus exhaustive "
     "deviation-bounded exploration of traverser/mutator interleavings over the real rcu_list.",
     "Bounded depth / threads / ops.",
     "explicit enumeration of operation sequences + stateless model checking (deviation-bounded DFS) of the implementation",
     "DESIGN.md 4/C12")

prop("C13",
     [dict(name="C13", src="rcu.cpp", cxxflags=["-DMODE_C13"], deadline=dict(quick=100, thorough=480)),
      dict(name="C13_string", src="rcu.cpp", cxxflags=["-DMODE_C13", "-DELEM_STRING"], deadline=dict(quick=60, thorough=480),
           args=dict(quick=["--max-items", "3000"], thorough=[]))],
     "Sequential part: every well-formed history up to depth 6 (7 thorough) over {lock_read, lock_write, first "
     "access (begin), release, push_front, push_back, ++it, erase(it)} on an empty and on a 2-element list, ending "
     "with release and list destruction. Concurrent part: " + SCHED_RULE + " Programs: pausing traversers, erasers, "
     "pushers and 1-3 short-lived handles (reclamation by concurrent releases), two erasers of the same element, "
     "readers whose handle is first used on the empty list, scale programs (5 elements all erased + 2 short handles, "
     "7 short handles, behind a held handle). In every program each allocation of a client operation "
     "and each element construction may fail (fault enumeration, one failure per run; thorough: two).",
     "Real rcu_list<Tracked, std::mutex, CountingAlloc<Tracked>> and rcu_list<element holding a heap-allocated "
     "std::string> (second harness; quick tier: the first 3000 histories): element type with non-trivial destructor, "
     "self-pointer canary and instance counter; allocator that records allocate/deallocate/construct/destroy per "
     "pointer. Oracles at every event: destroy/deallocate only of a currently constructed/allocated pointer (null, "
     "never-constructed, double = violation); at the end every allocation released once, every object destroyed "
     "once, instance count 0, arena empty.",
     A_COMMON + [A_MM],
     "Exhaustive enumeration of handle/mutation histories (bounded depth) plus exhaustive deviation-bounded "
     "exploration of concurrent reclamation over the real rcu_list with an accounting allocator and element type.",
     "Bounded depth / threads / ops.",
     "explicit enumeration of operation sequences + stateless model checking (deviation-bounded DFS) of the implementation",
     "DESIGN.md 4/C13")

prop("C14",
     [dict(name="C14_lr", src="C03.cpp", cxxflags=["-DMODE_C14", "-fno-access-control"], deadline=dict(quick=60, thorough=400)),
      dict(name="C14_cow", src="C04.cpp", cxxflags=["-DMODE_C14"], deadline=dict(quick=60, thorough=400)),
      dict(name="C14_rcu", src="rcu.cpp", cxxflags=["-DMODE_C14"], deadline=dict(quick=100, thorough=500)),
      dict(name="C14_rcu_alloc", src="rcu.cpp", cxxflags=["-DMODE_C14", "-DSTATEFUL_ALLOC"], deadline=dict(quick=100, thorough=300))],
     SCHED_RULE + " Programs: the C03 (lr_guarded), C04 (cow_guarded) and C05 (rcu) program sets; every read "
     "acquisition is bracketed as a read-side section; the rcu programs run on rcu_list<T> with std::allocator and "
     "again with a stateful custom allocator.",
     "Oracles: (1) no blocking-capable operation (mutex / rwlock acquisition, condition wait, yield, sleep) is "
     "executed inside a read-side section, whether or not it would have blocked in this schedule; (2) solo "
     "completion: a read-side section finishes within a small fixed number of the reader's own visible steps in "
     "every schedule, including all those where the writers are suspended after each visible step of modify / "
     "commit / push / erase (the DFS contains 'preempt writer at step i, run reader' for every i at P>=1); (3) "
     "writers complete once readers release: deadlock / livelock detector on every execution.",
     A_COMMON + [A_MM],
     "Exhaustive deviation-bounded exploration with read-side section instrumentation over the real lr_guarded, "
     "cow_guarded and rcu_guarded/rcu_list.",
     "Bounded threads/ops; allocation inside rcu registration is not counted as blocking.",
     "stateless model checking of the implementation: deviation-bounded DFS over a controlled scheduler",
     "DESIGN.md 4/C14")


LOCK_FLAGS = ["-fno-access-control"]

prop("C01",
     [dict(name="C01", src="locks.cpp", cxxflags=["-DMODE_C01"] + LOCK_FLAGS, deadline=dict(quick=100, thorough=480))],
     SCHED_RULE + " Instances: guarded, guarded_opt(on) x {mutex, timed_mutex}; shared_guarded, "
     "shared_guarded_opt(on), ordered_guarded x {mutex, timed_mutex, shared_mutex, shared_timed_mutex}. Alphabet: "
     "lock+RMW, lock+RMW+unlock(), try_lock, try_lock_for, try_lock_until, load, store, operator=, modify, "
     "modify(returning), operator T(), handle re-use (h = try_lock(); if (!h) h = lock();), hand-over-hand "
     "assignment from a second wrapper (h = other.lock()), and a try form followed by unlock() whatever it returned, "
     "as available for the mutex type. All programs with 2 threads x 1 op, 3 threads x 1 op, "
     "2+1 ops (thorough: 2+2 ops, 4 threads).",
     "Oracles: ghost access windows on the wrapped object (payload copy/assign/compare have scheduling points "
     "inside, so load/store/operator= have observable windows), torn pair, lock model says the handle's thread "
     "owns the mutex while a non-null handle lives, every history (values seen / written) is linearizable w.r.t. a "
     "sequential register (=> no lost update), mutex free at the end and a final blocking acquisition succeeds "
     "(deadlock detector), race detector, arena.",
     A_COMMON,
     "Exhaustive deviation-bounded exploration of every small client program mixing the acquisition methods, for "
     "every wrapper x mutex type, over the real headers.",
     "Bounded threads/ops.",
     "stateless model checking of the implementation: deviation-bounded DFS over a controlled scheduler",
     "DESIGN.md 4/C01")

prop("C02",
     [dict(name="C02", src="locks.cpp", cxxflags=["-DMODE_C02"] + LOCK_FLAGS, deadline=dict(quick=100, thorough=480),
           required_cover=2)],
     SCHED_RULE + " Instances: shared_guarded, shared_guarded_opt(on), ordered_guarded, deferred_guarded x the four "
     "mutex types. Alphabet: writer ops (lock+RMW, try_lock, try_lock_for, store, modify, modify_detach, "
     "modify_async) and reader ops (lock_shared, try_lock_shared, try_lock_shared_for/until, const lock(), read, "
     "read(returning), load, a shared handle re-used after a failed try_lock_shared, hand-over-hand assignment "
     "from a second wrapper, try_lock_shared then unlock() whatever it returned); programs with at least one reader "
     "op; scale programs for deferred_guarded (a reader keeps its handle while 3 / 10 / 20 modifications are queued "
     "behind it and a second reader arrives); plus rendezvous programs (two readers must "
     "meet inside their shared sections) for shared-capable mutex types.",
     "Oracles: ghost windows (READ||WRITE and WRITE||WRITE forbidden, READ||READ allowed and required to be "
     "observed at least once: cover flag), torn pair, value stable under a shared handle, linearizable history, "
     "rendezvous of two readers terminates in every schedule and try forms never refuse a reader because of a "
     "reader, functor runs with the lock held, mutex free at the end, race detector.",
     A_COMMON,
     "Exhaustive deviation-bounded exploration of every small reader/writer program for every wrapper x mutex type.",
     "Bounded threads/ops; rwlock modelled with reader preference.",
     "stateless model checking of the implementation: deviation-bounded DFS over a controlled scheduler",
     "DESIGN.md 4/C02")

prop("C15",
     [dict(name="C15", src="locks.cpp", cxxflags=["-DMODE_C15"] + LOCK_FLAGS, deadline=dict(quick=100, thorough=480))],
     "Sequential part: every operation sequence up to depth 3 (4 thorough) over the operations x values {0,1,2}, "
     "checked against a plain variable. Concurrent part: " + SCHED_RULE + " Instances: atomic_guarded (load, store, "
     "operator=, exchange, compare_exchange), guarded, guarded_opt (both flag values), ordered_guarded (load, "
     "store, operator=), deferred_guarded (load, modify_detach as writer); 2 threads x 1 op, 3 threads x 1 op, "
     "2+1 ops, 2+2 ops for deferred_guarded (thorough: for every small alphabet, and 4 threads x 1 op).",
     "Oracles: brute-force linearizability of every call/return history (total-order stamps) against a "
     "sequential register: exchange returns the value it replaced, compare_exchange succeeds iff current == "
     "expected and otherwise reports the current value; no returned value is half-written (payload operations "
     "contain scheduling points); race detector. A deferred modification may take effect after its call returned, "
     "but not later than the first access made at quiescence, and two deferred modifications ordered by real time "
     "take effect in that order.",
     A_COMMON,
     "Exhaustive enumeration of operation sequences plus exhaustive deviation-bounded exploration of concurrent "
     "histories with a linearizability check.",
     "Bounded depth/threads/ops/values.",
     "explicit enumeration of operation sequences + stateless model checking (deviation-bounded DFS) with linearizability checking",
     "DESIGN.md 4/C15")


prop("C08",
     [dict(name="C08", src="C08.cpp", cxxflags=LOCK_FLAGS, deadline=dict(quick=100, thorough=480), required_cover=28)],
     SCHED_RULE + " Instances: guarded, guarded_opt (on/off) x {mutex, timed_mutex}; shared_guarded, "
     "shared_guarded_opt (on/off), ordered_guarded, deferred_guarded x the four mutex types. Programs: holder in "
     "{none, exclusive handle, shared handle, inside modify(), inside modify_detach(), shared handle held while a "
     "modify_detach is queued behind it (deferred_guarded)} that either keeps its handle "
     "for the whole attempt or releases it concurrently by destruction / unlock() / move-construction / "
     "move-assignment (target holding a lock of another wrapper) / assignment of a null handle to it; contender using each of try_lock, try_lock_for, "
     "try_lock_until, try_lock_shared, try_lock_shared_for, try_lock_shared_until, blocking lock / lock_shared / "
     "const lock, and a handle that failed a try form and is then assigned from the blocking form; optional third thread making a "
     "blocking acquisition after the release.",
     "Oracles: returned handle is non-null iff the calling thread holds the lock (lock model) when the call "
     "returns, and refers to the wrapped object; against a handle held for the whole attempt the untimed forms "
     "return null without ever blocking and the timed forms return null (an implementation that blocks without "
     "time-out deadlocks the program: reported); reader-vs-reader succeeds on shared-capable "
     "mutexes; the lock stays held while a non-null handle lives; after unlock() the handle is null and the lock "
     "free; move-assignment releases the target's previous lock; releasing twice / never (lock model: bad unlock, "
     "mutex still locked at the end, third thread blocked = deadlock); locking disabled: zero mutex operations, "
     "non-null usable handle even while another handle is held, never blocks. Vacuity: null, non-null and "
     "disabled outcomes must all have been observed.",
     A_COMMON,
     "Exhaustive deviation-bounded exploration of contender x holder x life-cycle x mutex type x enable flag over "
     "the real handle code, with all time-out placements.",
     "Bounded to one contender, one holder, one third thread.",
     "stateless model checking of the implementation: deviation-bounded DFS over a controlled scheduler",
     "DESIGN.md 4/C08")


prop("C06",
     [dict(name="C06", src="C06.cpp", cxxflags=LOCK_FLAGS, deadline=dict(quick=100, thorough=480))],
     SCHED_RULE + " Instances: deferred_guarded<Pair,M> for shared_timed_mutex and mutex (thorough: all four). "
     "Alphabet: modify_detach (plain / throwing functor), modify_async (value / void / throwing), shared handle through each acquisition form "
     "released at once or held across the next 1-2 operations of the same thread, load. All 2-thread programs with "
     "<=2 ops per thread and all 3-thread programs with 1 op per thread that contain 1-4 submissions (thorough: "
     "3 threads with one 2-op thread; quick: the family reader | one submission | two submissions at three "
     "preemptions); each ends with lock_shared() or modify_detach(nop) made at quiescence.",
     "Every functor has a unique id and logs its execution. Oracles: no id executes twice at any time and each "
     "executes exactly once after quiescence plus one lock_shared / modify call; functor write windows overlap "
     "neither each other nor any reader window; value stable while a shared handle is held; execution order "
     "respects program order and real time (submission returned before the other was invoked); no stranding: the "
     "access granted at quiescence already sees every accepted modification; every modify_async future is then "
     "ready and holds its functor's result or exception; deadlock detector; race detector (pending flag vs queue).",
     A_COMMON + [A_MM],
     "Exhaustive deviation-bounded exploration of submitters (direct and queued path), readers holding and "
     "releasing shared handles and drainers over the real deferred_guarded.",
     "Bounded threads/ops; futures inspected with wait_for(0) only.",
     "stateless model checking of the implementation: deviation-bounded DFS over a controlled scheduler",
     "DESIGN.md 4/C06")


prop("C16",
     [dict(name="C16", src="C16.cpp", cxxflags=LOCK_FLAGS, deadline=dict(quick=100, thorough=480))],
     "Sequential part: every operation sequence up to depth 5 (6 thorough) over {add(new), add(new, keep external "
     "owner), add(same object again), drop external owner, destroyObjects(), destroyObjects(0/10/250 ms), size()} "
     "on DelayedDestructor and DelayedDestructorSingleThread, followed by destruction of the container and release "
     "of the remaining owners, compared after every step with a reference multiset (results of destroyObjects / "
     "size, which objects are destroyed, callback counts); short sequences additionally with destructors and "
     "callbacks that re-enter the container (size / add / destroyObjects); scale sequences with 9 / 17 (thorough: "
     "33) objects plus one externally owned and three destroyObjects passes, both classes, with and without "
     "callback. Concurrent part: " + SCHED_RULE +
     " Programs: pairs and triples of roles (adders, owners dropping references, destroyObjects callers incl. timed, "
     "size pollers) with plain and re-entering destructors/callbacks; every try_lock_for may time out whenever the "
     "lock is held; sleeps are virtual.",
     "Oracles: per-object destructor counter (== 1 exactly, never while an external owner is registered), callback "
     "ran at most once and before the destructor for every object destroyed inside a destroyObjects call, "
     "self-deadlock detection on the modelled non-recursive timed mutex when a destructor/callback re-enters "
     "(= destructor ran under the internal lock), failure result only after a time-out fired, accounting at "
     "quiescence (nothing lost or duplicated), everything destroyed once after container destruction and owner "
     "release, arena leak check, race detector.",
     A_COMMON,
     "Exhaustive enumeration of operation sequences against a reference model plus exhaustive deviation-bounded "
     "exploration (with time-outs) of concurrent adders / droppers / destroyers over the real DelayedDestructor.",
     "Bounded depth/threads/ops; re-entry is disabled while the container itself is being destroyed (client misuse).",
     "explicit enumeration of operation sequences + stateless model checking (deviation-bounded DFS) of the implementation",
     "DESIGN.md 4/C16")


prop("C17",
     [dict(name="C17", src="C17.cpp", cxxflags=LOCK_FLAGS, deadline=dict(quick=100, thorough=480))],
     "Sequential part: every sequence up to depth 3 (4 thorough) over 19 mutating calls (addObject x3 names, "
     "addObject+type x3, addType x3, copyObject x3, removeObject(name) x3, removeObject(predicate never / id==1 / "
     "id==2 / always)); names include one longer than the small-string buffer; after every step the whole query "
     "surface (findObject by name for every name, checkObjectType for every name and type, getObjects, empty, "
     "findObject(pred), findObject(pred,type)) is compared with a reference map; an entry that received addType "
     "while its name was not stored has unspecified tags: checkObjectType on it is skipped and the typed find must "
     "return one of the objects that reading allows (it is always executed: memory safety); scale programs with 10 / "
     "33 (thorough: 50) names checked against std::map after every phase. Concurrent part: " + SCHED_RULE + " Programs: 2 clients "
     "with <=2 calls and 3 clients with 1 call over 14 calls (including addType).",
     "Oracles: reference-map agreement; quarantine arena (std::map nodes are allocated through the replaced "
     "operator new, so any instrumented read of an erased node is reported); brute-force linearizability of "
     "concurrent histories against the reference map; an object returned to a caller is used afterwards (id, check "
     "word, liveness flag) while other clients remove it; objects freed once; race detector.",
     A_COMMON,
     "Exhaustive enumeration of call sequences against a reference map with a memory-safety oracle, plus "
     "exhaustive deviation-bounded exploration of concurrent clients with a linearizability check.",
     "Bounded depth/threads/ops/name domain.",
     "explicit enumeration of operation sequences + stateless model checking (deviation-bounded DFS) with linearizability checking",
     "DESIGN.md 4/C17")


prop("C18",
     [dict(name="C18", src="C18.cpp", cxxflags=LOCK_FLAGS, deadline=dict(quick=100, thorough=480))],
     "Sequential part: every call sequence up to depth 4 (5 thorough) over {getFuture(k), setDelayedValue(k,v) copy "
     "and move, fulfillAllPromises(v), finishedWithValue(k)} for keys {int 0, int 1, string \"x\"} (each key "
     "requested once) on DelayedObjects<int> and DelayedObjects<std::string> (heap-allocated values), followed by "
     "destruction; after every step isRecognized / isCompleted for every key and the readiness of every handed-out "
     "future are compared with a reference life-cycle model, and at the end every future must deliver the "
     "reference value; histories that request both int keys are repeated with the second int key at 64 and 256 "
     "(thorough: 32, 65536) instead of 1. Concurrent part: " + SCHED_RULE + " Programs: futures requested up front with one "
     "consumer fiber each (awaiting readiness, then get()), 2-3 clients issuing setters (copy/move), "
     "fulfillAllPromises, finishedWithValue, queries and a further getFuture; the container is destroyed while "
     "consumers may still be waiting.",
     "Oracles: no exception escapes any call (promise_already_satisfied) and no future delivers an error "
     "(broken_promise); every handed-out future is ready after destruction and consumers never stay blocked "
     "(deadlock detector); the call results together with the values the futures delivered have a sequential "
     "explanation against the life-cycle model (brute-force linearizability; destruction fulfils the rest with "
     "X{}); arena leak / use-after-free; race detector.",
     A_COMMON + [A_MM],
     "Exhaustive enumeration of call sequences against a reference life-cycle model plus exhaustive "
     "deviation-bounded exploration of concurrent setters / fulfillers / finishers / consumers.",
     "Bounded depth/threads/ops/keys; futures inspected with wait_for(0) / get() after readiness only.",
     "explicit enumeration of operation sequences + stateless model checking (deviation-bounded DFS) with linearizability checking",
     "DESIGN.md 4/C18")


prop("C19",
     [dict(name="C19", src="C19.cpp", cxxflags=LOCK_FLAGS, deadline=dict(quick=100, thorough=480), required_cover=2)],
     "Sequential part: every sequence up to depth 4 (5 thorough) over {create trigger in slot 0/1 on line L0, L1 "
     "(explicit), declared, indexed[0], indexed[1]; move-construct slot->slot; move-assign slot->slot; destroy "
     "slot (including moved-from objects); out-of-range index}; after every step a fresh detector on every line is "
     "compared with a reference (a line is tripped once a trigger currently attached to it has been destroyed; "
     "the old line of a move-assignment target is unspecified and skipped; an out-of-range index must throw "
     "std::out_of_range). The process-wide declared/indexed lines are restored before each execution. Concurrent "
     "part: " + SCHED_RULE + " Programs: a triggering thread writes plain data and destroys its trigger "
     "(directly / after move-construction with the moved-from object destroyed first / after taking it over from "
     "main / on an indexed line), 1-2 pollers call isTripped 1-3 times and read the data on the first true; "
     "stale reads of the acquire load are explored (R<=2).",
     "Oracles: reference trip state per line; crash handler (null dereference = violation with schedule); each "
     "detector's answers are monotone, also under stale reads; a detector on another line stays false; after "
     "observing true the plain reads of the published data are race free and see the written values "
     "(release/acquire edge, vector-clock detector); after join the line is tripped; arena.",
     A_COMMON + [A_MM],
     "Exhaustive enumeration of trigger life-cycle sequences (incl. moves) against a reference plus exhaustive "
     "deviation-bounded exploration with reads-from choices of the trigger/poller programs.",
     "Bounded depth/threads/polls; static lines restored between executions by the harness.",
     "explicit enumeration of operation sequences + stateless model checking (deviation-bounded DFS with reads-from choices)",
     "DESIGN.md 4/C19")


prop("C20",
     [dict(name="C20", src="C20.cpp", cxxflags=LOCK_FLAGS, deadline=dict(quick=100, thorough=480))],
     "Fault enumeration layered on the schedule explorer: user code (modify/read functors - at entry and half-way "
     "through their update -, predicates, callbacks, the payload's copy constructor / assignment / comparison) "
     "calls may_throw(site); for each program the fault-free exploration first measures the number of calls per "
     "site over all schedules, then EVERY plan 'the n-th call of site s throws' is explored (thorough: every pair "
     "of such faults), each with all interleavings up to the deviation bound. Programs: lr_guarded writers with "
     "throwing functors against readers, called normally and from a destructor during stack unwinding; cow_guarded "
     "write handles released by unwinding after user code threw; guarded / guarded_opt / ordered_guarded / atomic_guarded operation pairs "
     "with throwing copy/assign/compare/functor; cow_guarded writers with a throwing copy constructor; "
     "deferred_guarded submitters (direct and queued path, detach and async, value- and void-returning) with throwing functors against "
     "readers; DelayedDestructor with a throwing callback; SearchableObjectHolder with throwing predicates.",
     "Oracles: exceptions appear where documented and nowhere else (std::terminate = abort = violation); after "
     "the throw the throwing thread holds no lock of the wrapper, the mutex is free at the end and every other "
     "thread and a final acquisition proceed (deadlock / livelock detector); wrapped object never half-modified "
     "by the wrapper (payload operations throw before mutating); lr_guarded: final value = number of modifications "
     "whose first application completed, readers monotone and never torn, both copies agree; histories with failed "
     "operations stay linearizable (a failed operation has no effect; exchange may have written); cow: final = "
     "successful commits and a later writer completes; deferred: every accepted functor runs exactly once and in "
     "order, futures hold value or exception; DelayedDestructor: objects destroyed once, container usable; SOH: "
     "map unchanged by the failed call.",
     A_COMMON + [A_MM],
     "Exhaustive enumeration of single (thorough: double) fault plans x exhaustive deviation-bounded exploration "
     "of interleavings over the real wrappers.",
     "Bounded programs; payload test doubles give the strong guarantee themselves; the library-documented "
     "indeterminate case (assignment throwing inside lr_guarded's own roll-back copy) is excluded.",
     "fault-plan enumeration + stateless model checking (deviation-bounded DFS) of the implementation",
     "DESIGN.md 4/C20")


prop("C07",
     [dict(name="C07pub", src="C07.cpp", cxxflags=LOCK_FLAGS, deadline=dict(quick=60, thorough=480), required_cover=2),
      dict(name="C03", src="C03.cpp", deadline=dict(quick=60, thorough=480), args=dict(quick=["--rbound", "2"], thorough=["--rbound", "3"])),
      dict(name="C19", src="C19.cpp", cxxflags=LOCK_FLAGS, deadline=dict(quick=60, thorough=480), args=dict(quick=["--rbound", "2"], thorough=["--rbound", "3"])),
      dict(name="C05", src="rcu.cpp", cxxflags=["-DMODE_C05"], deadline=dict(quick=60, thorough=480),
           args=dict(quick=["--rbound", "2", "--max-items", "6"], thorough=["--rbound", "2"])),
      dict(name="C10", src="C10.cpp", deadline=dict(quick=30, thorough=300), args=dict(quick=["--max-items", "150"], thorough=[]))],
     SCHED_RULE + " Publication programs, one or more per protocol (guarded / shared_guarded / ordered_guarded "
     "handles and functors for several mutex types, lr_guarded, cow_guarded, deferred_guarded, rcu_list push / "
     "emplace vs traversal vs erase, Latch, Barrier over two generations, TriggerVariable trigger and activation, "
     "TripWire, atomic_guarded, DelayedObjects futures): thread A writes plain data then performs the publishing "
     "operation, thread B performs the observing operation and reads the data plainly. In addition the lr_guarded "
     "(C03), TripWire (C19), rcu (C05, first programs in the quick tier) and Latch (C10) program sets are re-run "
     "with a larger stale-read budget. Every other check also runs the same race detector on every execution.",
     "Oracles: vector-clock happens-before race detector over every instrumented plain access to arena memory "
     "(wrapped objects, library internals, published data), with happens-before edges only from what the C++ "
     "model grants for the memory orders written in the source (mutex/rwlock release->acquire, release "
     "sequences, acquire loads reading them, spawn/join); non-seq_cst loads choose among all stores the "
     "operational C++11 model allows (coherence, happens-before visibility, SC floor) and weak CAS may fail "
     "spuriously; the functional oracles of the re-run harnesses must still hold under those stale reads; "
     "published data must be visible after the observing operation. For all-seq_cst protocols race freedom in all "
     "SC executions implies only SC executions exist (DRF-SC). Not reachable: load-buffering / out-of-thin-air "
     "executions (A4).",
     A_COMMON + [A_MM],
     "Exhaustive deviation-bounded exploration of interleavings AND reads-from choices with a vector-clock race "
     "detector, over publication programs for every protocol plus the lock-free protocol harnesses.",
     "Operational fragment of the C++11 model; accesses inside libstdc++.so are not instrumented (A2).",
     "stateless model checking (deviation-bounded DFS with reads-from choices) + vector-clock data-race detection",
     "DESIGN.md 4/C07")
