"""Registry of checks: property id -> harnesses, evidence texts.  MANIFEST.json is
generated from this file by tools/gen_manifest.py."""

A_COMMON = [
    "A1: libstdc++/glibc implement unique_lock, shared_lock, condition_variable, shared_ptr, promise/future, "
    "map correctly given correct pthread leaves; the leaves (mutex, rwlock, condvar, yield, sleep, clock) are "
    "replaced by the lock/time models of DESIGN.md 2.2/2.6",
    "A2: plain accesses performed inside libstdc++.so are not seen by the race detector / state hash",
    "A3: try_lock never fails spuriously",
    "A5: bounded programs (threads, operations per thread) and deviation bounds as reported in coverage",
    "A6: g++ 12.2 -O1 with -fsanitize=thread instrumentation routed to our own runtime",
]
A_MM = "A4: operational C++11 memory-model fragment (no load buffering / out-of-thin-air executions)"

SCHED_RULE = (
    "every client program of the stated alphabet/size is generated (modulo thread symmetry); for each, "
    "stateless DFS over all interleavings of the visible operations of the real headers (pthread leaves, "
    "every std::atomic op, harness points) up to the preemption bound, plus all time-out placements, "
    "bounded spurious wake-ups / weak-CAS failures / stale reads; pruned only by the happens-before-signature "
    "state cache. A program counts as non-trivial when its schedules produced >=2 distinct observable "
    "outcomes or >=2 distinct states."
)

PROPERTIES = {}


def prop(pid, harnesses, rule, explanation, assumptions, level_text, level_note, technique, design_ref):
    PROPERTIES[pid] = dict(harnesses=harnesses, rule=rule, explanation=explanation, assumptions=assumptions,
                           level_text=level_text, level_note=level_note, technique=technique,
                           design_ref=design_ref)


prop("C10",
     [dict(name="C10", src="C10.cpp", deadline=dict(quick=60, thorough=600))],
     SCHED_RULE + " Alphabet: wait / arrive / arrive_and_wait, 1-2 ops per thread, 2-3 threads (4 thorough), "
     "count 1-3, total arrivals in [count, count+1]; programs that block under the specification are excluded.",
     "Real Latch.hpp under the controlled scheduler. Oracles: at every return of wait/arrive_and_wait the number "
     "of arrive calls invoked is >= count; arrive never enters a condition wait; deadlock detector (lost wake-up); "
     "a late waiter on an open latch does not block; race detector.",
     A_COMMON,
     "Exhaustive exploration of all interleavings (preemption-bounded, iterated) of every small client program "
     "over the real Latch implementation, including the window between the unlocked fast-path check and cv.wait, "
     "and spurious wake-ups.",
     "Bounded threads/ops; lock and condvar leaves modelled; see assumptions in evidence.",
     "stateless model checking of the implementation: preemption-bounded DFS over a controlled scheduler",
     "DESIGN.md 4/C10")
