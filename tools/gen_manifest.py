#!/usr/bin/env python3
import json, os, sys
ROOT = os.path.dirname(os.path.dirname(os.path.abspath(__file__)))
sys.path.insert(0, os.path.join(ROOT, "tools"))
from registry import PROPERTIES
props = [json.loads(l) for l in open(os.path.join(ROOT, "properties.jsonl"))]
na_file = os.path.join(ROOT, "tools", "not_applicable.json")
na = json.load(open(na_file)) if os.path.exists(na_file) else {}
checks, not_app = [], []
for p in props:
    pid = p["id"]
    if pid in PROPERTIES:
        s = PROPERTIES[pid]
        checks.append(dict(
            property_id=pid,
            quick_cmd=f"./verif check {pid} --tier quick",
            thorough_cmd=f"./verif check {pid} --tier thorough",
            evidence_file=f"/verif/evidence/{pid}.json",
            replay_cmd_template="./verif replay {path}",
            engine="mcrt",
            level_claimed=dict(category="model_checking", text=s["level_text"], design_ref=s["design_ref"]),
            level_note=s["level_note"],
            technique=s["technique"]))
    else:
        not_app.append(dict(property_id=pid, reason=na.get(pid, "check not built yet in this revision (work in progress); no claim is made")))
m = dict(
    version=1,
    setup_cmd="make -C /verif setup",
    hooks=dict(guard="GMLC_TDC_CONCURRENCY_VERIF",
               enable="none needed: checks compile the unmodified headers from /repo with -DGMLC_TDC_CONCURRENCY_VERIF=1; interception is link-time (pthread symbols) and compiler-level (-fsanitize=thread ABI with our own runtime)",
               baseline_off_cmd="cmake --build /repo/_build && ctest --test-dir /repo/_build -j8 --timeout 900",
               source_commits=[], add_only=True),
    engines=[dict(name="mcrt", path="/verif/mcrt", serves_properties=sorted(PROPERTIES.keys()),
                  kind_free_text="controlled-scheduler runtime + preemption-bounded DFS explorer over the real headers (fibers, pthread interposition, TSan-ABI atomics with operational C++11 model, vector-clock race detector, quarantine arena)")],
    checks=checks,
    notes="All checks recompile their harness against /repo's working tree on every invocation. Exit 2 = machinery error (never a verdict).",
    not_applicable=not_app)
json.dump(m, open(os.path.join(ROOT, "MANIFEST.json"), "w"), indent=1)
print("checks:", len(checks), "not_applicable:", len(not_app))
