#!/usr/bin/env python3
"""Negative controls: run the quick checks of every property a file family touches on a scratch copy of /repo/gmlc
with a behaviour-preserving change applied (neutral/<family>/n*.diff). Every check must exit 0 without a VIOLATION
line. Writes evidence/neutral.json. usage: tools/neutral.py [family ...]"""
import glob, json, os, re, subprocess, sys, time
ROOT = os.path.dirname(os.path.dirname(os.path.abspath(__file__)))
FAM = {
    "A": ["C01", "C02", "C08", "C15", "C20", "C07"],
    "B": ["C02", "C06", "C08", "C15", "C20", "C07"],
    "C": ["C03", "C04", "C14", "C20", "C07"],
    "D": ["C05", "C12", "C13", "C14", "C07"],
    "E": ["C09", "C10", "C11", "C07"],
    "F": ["C16", "C18", "C20"],
    "G": ["C17", "C19", "C20", "C07"],
    "H": ["C16", "C17"],  # correct uses of thread_local (the runtime models it)
}
want = set(a for a in sys.argv[1:] if not a.startswith("C"))
only_props = set(a for a in sys.argv[1:] if a.startswith("C"))  # e.g. "C20": re-run these checks only and merge
rows, bad = [], 0
for fam in sorted(FAM):
    if want and fam not in want:
        continue
    for patch in sorted(glob.glob(os.path.join(ROOT, "neutral", fam, "n*.diff"))):
        for pid in FAM[fam]:
            if only_props and pid not in only_props:
                continue
            t0 = time.time()
            r = subprocess.run([os.path.join(ROOT, "tools", "mutcheck.sh"), pid, patch], capture_output=True, text=True)
            out = r.stdout + r.stderr
            rc = re.search(r"mutcheck rc=(\d+)", out)
            code = int(rc.group(1)) if rc else -1
            m = re.search(r"^  \[([^\]]+)\] (.*)$", out, re.M)
            err = re.search(r"^ERROR.*$", out, re.M)
            row = dict(family=fam, change=os.path.relpath(patch, ROOT), property=pid, exit=code,
                       alarm=(m.group(1) + ": " + m.group(2)[:200]) if m else (err.group(0)[:200] if err else None),
                       wall_s=round(time.time() - t0, 1))
            rows.append(row)
            if code != 0:
                bad += 1
            print(f"{fam} {os.path.basename(patch):8s} {pid} {'silent' if code == 0 else 'ALARM rc=%d %s' % (code, row['alarm'])} ({row['wall_s']}s)", flush=True)
if only_props or want:
    # merge the re-run rows into the existing table (replace rows with the same key, append new ones)
    path = os.path.join(ROOT, "evidence", "neutral.json")
    old = json.load(open(path))
    key = lambda r: (r["change"], r["property"])
    fresh = {key(r): r for r in rows}
    merged = [fresh.pop(key(r), r) for r in old["results"]] + list(fresh.values())
    old["results"] = merged
    json.dump(old, open(path, "w"), indent=1)
else:
    json.dump(dict(note="quick checks run on scratch copies with behaviour-preserving changes applied; every entry must be silent (exit 0)",
                   results=rows), open(os.path.join(ROOT, "evidence", "neutral.json"), "w"), indent=1)
print(f"{len(rows) - bad}/{len(rows)} silent")
sys.exit(1 if bad else 0)
