#!/bin/bash
# usage: tools/seed_verify.sh Cxx [base dir] [name]  -- confirm a seeded change in its scratch worktree <base>/Cxx
# (suite passes with it 3x, demo fails with it and passes without it), store it under seeded/Cxx.
ID=$1; BASE=${2:-/tmp/seed}; NAME=${3:-$ID}; W=$BASE/$ID; OUT=/verif/seeded/$NAME
mkdir -p $OUT
cd $W || exit 2
git diff -- gmlc > $OUT/patch.diff
if [ ! -s $OUT/patch.diff ]; then echo "$ID: EMPTY DIFF"; exit 2; fi
echo "== $ID files changed: $(git diff --stat -- gmlc | tail -1)"
# suite with the change
[ -d ThirdParty/googletest/googletest ] || cp -r /usr/src/googletest/. ThirdParty/googletest/
cmake -G Ninja -S . -B _build >/dev/null 2>&1
if ! cmake --build _build >/dev/null 2>&1; then echo "$ID: BUILD FAILED"; exit 2; fi
PASS=0
for i in 1 2 3; do if ctest --test-dir _build -j8 --timeout 900 2>&1 | grep -q "100% tests passed"; then PASS=$((PASS+1)); fi; done
echo "$ID: suite with change: $PASS/3"
# demo with / without
chmod +x demo/run.sh 2>/dev/null
( cd $W && timeout 900 bash demo/run.sh >$BASE/$ID.demo_with.log 2>&1 ); RC_WITH=$?
git apply -R $OUT/patch.diff || { echo "$ID: cannot revert"; exit 2; }
( cd $W && timeout 900 bash demo/run.sh >$BASE/$ID.demo_without.log 2>&1 ); RC_WITHOUT=$?
git apply $OUT/patch.diff
echo "$ID: demo rc with=$RC_WITH without=$RC_WITHOUT"
rm -rf $OUT/demo; mkdir -p $OUT/demo
find demo -maxdepth 1 -type f \( -name '*.cpp' -o -name '*.hpp' -o -name '*.h' -o -name '*.sh' -o -name '*.md' -o -name '*.txt' \) -exec cp {} $OUT/demo/ \;
[ -f REPORT.md ] && cp REPORT.md $OUT/REPORT.md
echo "{\"suite_pass_with_change\": \"$PASS/3\", \"demo_rc_with_change\": $RC_WITH, \"demo_rc_without_change\": $RC_WITHOUT}" > $OUT/verify.json
