#!/usr/bin/env python3
"""Run every hand-written mutant (mutants/) and every seeded change (seeded/*/patch.diff) through the quick
check of its property on a scratch copy of /repo/gmlc; write evidence/mutations.json and print a table.
usage: tools/regress.py [ids...]"""
import glob, json, os, re, subprocess, sys, time
ROOT = os.path.dirname(os.path.dirname(os.path.abspath(__file__)))
jobs = []
for f in sorted(glob.glob(os.path.join(ROOT, "mutants", "*"))):
    b = os.path.basename(f)
    pid = "C" + re.match(r"c(\d+)", b).group(1)
    jobs.append((pid, "mutants/" + b, f))
for f in sorted(glob.glob(os.path.join(ROOT, "seeded", "C*", "patch.diff"))):
    name = os.path.basename(os.path.dirname(f))
    jobs.append((name[:3], "seeded/" + name, f))
want = set(sys.argv[1:])
rows = []
for pid, name, path in jobs:
    if want and pid not in want and name not in want:
        continue
    t0 = time.time()
    r = subprocess.run([os.path.join(ROOT, "tools", "mutcheck.sh"), pid, path], capture_output=True, text=True)
    out = r.stdout + r.stderr
    m = re.search(r"^  \[([^\]]+)\] (.*)$", out, re.M)
    pm = re.search(r"^  program: (.*)$", out, re.M)
    rc = re.search(r"mutcheck rc=(\d+)", out)
    row = dict(property=pid, change=name, detected=(rc is not None and rc.group(1) == "1" and m is not None),
               first_key=m.group(1) if m else None, message=m.group(2)[:160] if m else None,
               program=pm.group(1)[:160] if pm else None, wall_s=round(time.time() - t0, 1))
    rows.append(row)
    print(f"{pid} {name:32s} {'DETECTED' if row['detected'] else 'MISSED  '} {row['first_key']} ({row['wall_s']}s)", flush=True)
if not want:
    json.dump(dict(note="quick check of the property run on a scratch copy with the change applied", results=rows),
              open(os.path.join(ROOT, "evidence", "mutations.json"), "w"), indent=1)
missed = [r for r in rows if not r["detected"]]
print(f"{len(rows) - len(missed)}/{len(rows)} detected")
sys.exit(1 if missed else 0)
