#!/usr/bin/env python3
"""Run every hand-written mutant (mutants/) and every seeded change (seeded/*/patch.diff) through the quick
check of its property on a scratch copy of /repo/gmlc; write evidence/mutations.json and print a table.
usage: tools/regress.py [ids...]   (with ids: re-run those and merge into the table)"""
import glob, json, os, re, subprocess, sys, time
ROOT = os.path.dirname(os.path.dirname(os.path.abspath(__file__)))
jobs = []
skipped = []
for f in sorted(glob.glob(os.path.join(ROOT, "mutants", "*"))):
    b = os.path.basename(f)
    pid = "C" + re.match(r"c(\d+)", b).group(1)
    jobs.append((pid, "mutants/" + b, f, None))
for f in sorted(glob.glob(os.path.join(ROOT, "seeded", "C*", "patch.diff"))):
    name = os.path.basename(os.path.dirname(f))
    rebased = os.path.join(os.path.dirname(f), "patch_rebased.diff")  # same change on the current tree (after a fix: commit)
    if os.path.exists(rebased):
        f = rebased
    pid, base = name[:3], None
    try:
        meta = json.load(open(os.path.join(os.path.dirname(f), "meta.json")))
        pid = meta.get("regress_check", pid)    # the check that is expected to report it, if not the property's own
        base = meta.get("regress_base")          # the patch was written against this commit of /repo
        if meta.get("regress_skip"):
            skipped.append(dict(change="seeded/" + name, reason=meta["regress_skip"]))
            continue
    except Exception:
        pass
    jobs.append((pid, "seeded/" + name, f, base))
want = set(sys.argv[1:])
rows = []
for pid, name, path, base in jobs:
    if want and pid not in want and name not in want:
        continue
    t0 = time.time()
    env = dict(os.environ)
    if base:
        env["BASE_COMMIT"] = base
    r = subprocess.run([os.path.join(ROOT, "tools", "mutcheck.sh"), pid, path], capture_output=True, text=True, env=env)
    out = r.stdout + r.stderr
    m = re.search(r"^  \[([^\]]+)\] (.*)$", out, re.M)
    pm = re.search(r"^  program: (.*)$", out, re.M)
    rc = re.search(r"mutcheck rc=(\d+)", out)
    row = dict(property=pid, change=name, base_commit=base, detected=(rc is not None and rc.group(1) == "1" and m is not None),
               first_key=m.group(1) if m else None, message=m.group(2)[:160] if m else None,
               program=pm.group(1)[:160] if pm else None, wall_s=round(time.time() - t0, 1))
    rows.append(row)
    print(f"{pid} {name:32s} {'DETECTED' if row['detected'] else 'MISSED  '} {row['first_key']} ({row['wall_s']}s)", flush=True)
if want:
    # partial re-run: merge into the existing table (rows of the re-run changes replaced, new ones appended)
    path = os.path.join(ROOT, "evidence", "mutations.json")
    old = json.load(open(path))
    done = {r["change"] for r in rows}
    merged = [r for r in old["results"] if r["change"] not in done] + rows
    merged.sort(key=lambda r: (r["change"].split("/")[0], r["change"]))
    json.dump(dict(note=old["note"], results=merged, not_rerun=skipped), open(path, "w"), indent=1)
if not want:
    json.dump(dict(note="quick check of the property run on a scratch copy with the change applied", results=rows, not_rerun=skipped),
              open(os.path.join(ROOT, "evidence", "mutations.json"), "w"), indent=1)
missed = [r for r in rows if not r["detected"]]
print(f"{len(rows) - len(missed)}/{len(rows)} detected")
sys.exit(1 if missed else 0)
