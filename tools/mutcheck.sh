#!/bin/bash
# usage: tools/mutcheck.sh <property> <patch-or-script> [tier]
# Runs a check against a scratch copy of /repo's gmlc tree with a change applied.
# BASE_COMMIT=<rev> takes the library sources from that commit of /repo instead of the working tree.
set -e
PID=$1; CHANGE=$2; TIER=${3:-quick}
W=$(mktemp -d /tmp/mutXXXXXX)
if [ -n "$BASE_COMMIT" ]; then git -C /repo archive $BASE_COMMIT gmlc | tar -x -C $W; else cp -r /repo/gmlc $W/gmlc; fi
if [[ "$CHANGE" == *.diff || "$CHANGE" == *.patch ]]; then (cd $W && patch -p1 -s < "$CHANGE"); else (cd $W && bash "$CHANGE"); fi
set +e
VERIF_REPO=$W VERIF_OUT=$W/out /verif/verif check $PID --tier $TIER
RC=$?
echo "mutcheck rc=$RC (out in $W/out)"
if [ -z "$KEEP" ]; then rm -rf $W; fi
exit $RC
