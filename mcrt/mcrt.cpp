// mcrt.cpp: single translation unit of the runtime (compiled WITHOUT
// -fsanitize=thread so that its own accesses are invisible to the detector).
#include "rt_base.inc"
#include "rt_state.inc"
#include "rt_arena.inc"
#include "rt_sched.inc"
#include "rt_sync.inc"
#include "rt_atomic.inc"
#include "rt_api.inc"
#include "rt_explore.inc"
