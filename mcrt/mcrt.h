// mcrt: controlled-scheduler runtime for exhaustive bounded exploration of
// the real GMLC-TDC/concurrency headers.  See /verif/DESIGN.md section 2.
#pragma once
#include <cstdarg>
#include <cstddef>
#include <cstdint>
#include <functional>
#include <string>
#include <vector>

namespace mcrt {

// ---------------------------------------------------------------- fibers
int spawn(std::function<void()> fn);  // start a client thread (fiber); id >= 1
void join(int id);  // block until fiber finished (happens-before edge)
int self();  // id of the running fiber (0 = main fiber of the item)
void point();  // explicit scheduling point (no memory effect)
// block until pred() holds; pred reads ghost state only.  No hb edge.
void await(std::function<bool()> pred);

// harness-owned synchronisation flag with a happens-before edge (set -> wait)
struct Event {
    Event();
    void set();
    void wait();
    bool is_set() const;
    int idx;
};

// ---------------------------------------------------------------- oracles
[[noreturn]] void fail(const char* key, const char* fmt, ...)
    __attribute__((format(printf, 2, 3)));
#define MC_CHECK(cond, key, ...)                                               \
    do {                                                                       \
        if (!(cond)) ::mcrt::fail(key, __VA_ARGS__);                           \
    } while (0)

// Install a handler consulted when no thread can run: return nullptr if the
// deadlock is acceptable for this program (execution then ends normally), or a
// message describing the violation.  Reset at the start of every execution.
void on_deadlock(std::function<const char*()>* handler);

// total-order stamp: an ordering-relevant ghost event (keeps real-time
// relations distinguishable by the state cache).  Returns a global counter.
uint64_t stamp();
// declare a ghost event on ghost object `obj` (ordering relevant for cache)
void ghost_event(uintptr_t obj, bool write);
// record an observation; the sequence of observations is the execution's
// "outcome" (counted for vacuity reporting).
void observe(uint64_t v);
// note that something interesting was reached (coverage flags, per item)
void cover(int flag);  // 0..63

// sections in which blocking-capable operations are forbidden (C14) and in
// which at most `max_steps` visible steps of this fiber may be taken.
void noblock_begin(const char* what, int max_steps);
void noblock_end();
// counts of sync operations executed by the running fiber (C08 disabled mode)
uint64_t my_lock_ops();
uint64_t my_block_count();  // times this fiber was actually descheduled blocked
uint64_t my_cond_waits();  // condition waits entered by this fiber
uint64_t my_steps();  // visible steps taken by this fiber

// lock model queries (oracles): does running fiber own mutex/rwlock at addr
// 0 = no, 1 = exclusive, 2 = shared
int holds(const void* lockaddr);
bool is_locked(const void* lockaddr);
// address of the k-th most recently *acquired* lock by this fiber (for
// harnesses that cannot name a private mutex).  nullptr if none.
const void* last_lock_acquired();
// result of the most recent try/timed lock operation by the running fiber:
// 1 = acquired, 0 = failed/timed out, -1 = none so far
int last_try_result();
// global sequence number of the last lock acquisition by this fiber
uint64_t last_acquire_seq();
bool last_wait_timed_out();

// fault injection (C20): site-indexed throw plan
struct Injected {
    int site;
    int nth;
};
void may_throw(int site);  // throws Injected when plan says so
int fault_site_calls(int site);

// memory accounting of the per-execution arena
size_t live_blocks();
size_t live_bytes();
bool in_arena(const void* p);
bool is_freed(const void* p);

// virtual time
int64_t vnow_ns();

// run harness bookkeeping invisibly to the runtime (no scheduling points, no race /
// atomic modelling, allocations go to malloc): for restoring process-wide state only.
void untracked_begin();
void untracked_end();

// ---------------------------------------------------------------- explorer
struct Bounds {
    int P = 2;  // preemptions
    int S = 1;  // spurious wake-ups
    int R = 1;  // stale reads-from choices
    int W = 1;  // weak-CAS spurious failures
    int D = -1;  // total deviations of any kind (-1: same as P, i.e. the iterated level)
    int max_steps = 4000;
    int yield_limit = 6;
};

struct FaultPlan {
    int site = -1;
    int nth = -1;
    int site2 = -1;
    int nth2 = -1;
};

struct Item {
    std::string name;  // human readable program text
    std::function<void()> body;  // runs as fiber 0
    Bounds bounds;  // per item override (filled from tier defaults)
    bool enumerate_faults = false;  // C20: explore every single-fault plan
    uint32_t fault_mask = 0xffffffffu;  // which may_throw sites are enumerated
    int pmax_thorough = -1;  // optional override
};

struct Options {
    std::string property;
    std::string harness;
    std::string tier = "quick";
    int workers = 16;
    double deadline_s = 100;
    std::string outdir = ".";
    std::string replay_file;  // non-empty: replay mode
    bool verbose = false;
    int only_item = -1;
    long seed = 0;
    int pmax = -1;  // iterate P up to this (-1: item bounds)
    int rbound = -1;  // override the stale-read budget of every item
    int max_items = -1;  // explore only the first N items (reported in evidence)
    bool until_exhaustive = false;
    // how many cover flags must have been seen over all items (vacuity check)
    uint64_t required_cover = 0;
};

// Called by the harness main(): parses argv, runs all items with forked
// workers, writes <outdir>/result.json, prints VIOLATION lines, returns the
// process exit code.
int run_main(int argc, char** argv, const char* property, const char* harness,
             std::function<void(const Options&, std::vector<Item>&)> make_items,
             std::function<void()> warmup = nullptr);

}  // namespace mcrt
