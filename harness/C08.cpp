// C08: a handle is non-null exactly when it holds the lock, and releases it once
#define HX_MAIN
#include <chrono>
#include <mutex>
#include <shared_mutex>
#include "common.h"
#include "gmlc/libguarded/deferred_guarded.hpp"
#include "gmlc/libguarded/guarded.hpp"
#include "gmlc/libguarded/guarded_opt.hpp"
#include "gmlc/libguarded/ordered_guarded.hpp"
#include "gmlc/libguarded/shared_guarded.hpp"
#include "gmlc/libguarded/shared_guarded_opt.hpp"

using namespace mcrt;
using namespace std::chrono_literals;
using hx::Pair;
namespace lg = gmlc::libguarded;

namespace {
template<class M, class = void>
struct is_timed: std::false_type {};
template<class M>
struct is_timed<M, std::void_t<decltype(std::declval<M&>().try_lock_for(1ms))>>: std::true_type {};
template<class M, class = void>
struct has_shared: std::false_type {};
template<class M>
struct has_shared<M, std::void_t<decltype(std::declval<M&>().lock_shared())>>: std::true_type {};

enum Holder { H_NONE, H_X, H_S, H_MODIFY, H_DETACH, H_S_PENDING };
enum Behav { B_HOLD, B_DESTROY, B_UNLOCK, B_MOVE_CTOR, B_MOVE_ASSIGN, B_ASSIGN_NULL };
enum Cont { C_TRY, C_TRY_FOR, C_TRY_UNTIL, C_STRY, C_STRY_FOR, C_STRY_UNTIL, C_LOCK, C_LOCK_SHARED, C_CONST_LOCK, C_TRY_THEN_LOCK, C_STRY_THEN_LOCK };
const char* holdern[] = {"no holder", "holder: exclusive handle", "holder: shared handle", "holder: inside modify()",
                         "holder: inside modify_detach()", "holder: shared handle with a modification queued behind it"};
const char* behavn[] = {"held until the attempt is over", "destroyed concurrently", "unlock()ed concurrently",
                        "move-constructed then destroyed concurrently", "move-assigned then destroyed concurrently",
                        "released concurrently by assigning a null handle to it"};
const char* contn[] = {"try_lock", "try_lock_for", "try_lock_until", "try_lock_shared", "try_lock_shared_for",
                       "try_lock_shared_until", "lock (blocking)", "lock_shared (blocking)", "const lock() (blocking)",
                       "try_lock, then the same handle is assigned lock()", "try_lock_shared, then the same handle is assigned lock_shared()"};

struct Ctx {
    Event held, done, released;
};

// ---- what the contender checks about the handle it got
template<class H>
void check_contender(H& c, bool enabled, const void* mtx, const Pair* obj, bool shared_form, uint64_t ops0,
                     uint64_t blk0, bool timed, int expect /* -1 unknown, 0 must fail, 1 must succeed */)
{
    if (!enabled) {
        MC_CHECK(bool(c), "disabled-null", "locking disabled, but the acquisition returned a null handle");
        MC_CHECK(my_lock_ops() == ops0, "disabled-locks", "locking disabled, but the acquisition operated on the mutex");
        MC_CHECK(my_block_count() == blk0, "disabled-blocked", "locking disabled, but the acquisition blocked");
        MC_CHECK(&*c == obj, "wrong-object", "handle does not refer to the wrapped object");
        (void)c->a;
        cover(4);
        // "after unlock() the handle is null" holds with locking disabled too
        c.unlock();
        MC_CHECK(!bool(c), "unlock-not-null", "locking disabled: handle still non-null after unlock()");
        MC_CHECK(my_lock_ops() == ops0, "disabled-locks", "locking disabled, but unlock() operated on the mutex");
        return;
    }
    // behavioural reading of "the lock was obtained": this thread holds it when the call returns
    bool have = holds(mtx) != 0;
    MC_CHECK(bool(c) == have, "truthiness", "handle is %s although the lock is %s by this thread after the call",
             bool(c) ? "non-null" : "null", have ? "held" : "not held");
    if (expect == 0) MC_CHECK(!bool(c), "got-held-lock", "acquisition succeeded although a conflicting handle was held for its whole duration");
    if (expect == 1) MC_CHECK(bool(c), "refused-free-lock", "acquisition failed although nothing conflicting was held");
    if (!timed) MC_CHECK(my_block_count() == blk0, "try-blocked", "untimed try form blocked");
    if (bool(c)) {
        cover(3);
        MC_CHECK(&*c == obj, "wrong-object", "handle does not refer to the wrapped object");
        point();
        MC_CHECK(holds(mtx) != 0, "handle-lost-lock", "lock released while the handle is still alive");
        if (shared_form) hx::read_pair(*c, "contender under shared handle");
        else {
            hx::ReadWin r(&*c, "contender under exclusive handle");
            (void)c->a;
        }
    } else {
        cover(2);
    }
}

struct Spec {
    int holder, behav, cont;
    bool third;
};

template<class W, class M, bool HasExcl, bool HasSharedSide, bool IsOrdered, bool IsDeferred, bool IsOpt>
struct Gen {
    static W* make(bool enabled)
    {
        if constexpr (IsOpt) return new W(enabled, 0);
        else return new W(0);
    }

    template<class H>
    static void life_cycle(H& h, int behav, bool enabled, const void* mtx, bool shared)
    {
        switch (behav) {
            case B_DESTROY:
                break;  // destroyed by the caller's scope
            case B_UNLOCK:
                h.unlock();
                MC_CHECK(!bool(h), "unlock-not-null", "handle still non-null after unlock()");
                if (enabled) MC_CHECK(holds(mtx) == 0, "unlock-kept-lock", "lock still held by this thread after unlock()");
                break;
            case B_MOVE_CTOR: {
                H h2(std::move(h));
                MC_CHECK(bool(h2), "move-null", "move-constructed handle is null");
                if (enabled) MC_CHECK(holds(mtx) != 0, "move-lost-lock", "lock not held after move construction");
                // unlock() on the moved-from handle: it holds nothing, must not release h2's lock, and is null afterwards
                h.unlock();
                MC_CHECK(!bool(h), "unlock-not-null", "moved-from handle still non-null after unlock()");
                if (enabled) MC_CHECK(holds(mtx) != 0, "move-lost-lock", "unlock() of the moved-from handle released the lock of the moved-to handle");
                point();
                break;  // h2 destroyed here: releases; then the moved-from h dies in the caller
            }
            case B_MOVE_ASSIGN: {
                W* w2 = make(enabled);
                {
                    H h2 = [&] {
                        if constexpr (std::is_same_v<H, lg::lock_handle<Pair, M>>) return w2->lock();
                        else return w2->lock_shared();
                    }();
                    const void* mtx2 = last_lock_acquired();  // the lock h2 took on the second wrapper (enabled mode)
                    h2 = std::move(h);
                    if (enabled) {
                        MC_CHECK(!is_locked(mtx2), "assign-kept-old", "move assignment did not release the lock previously held by the target");
                        MC_CHECK(holds(mtx) != 0, "move-lost-lock", "lock not held after move assignment");
                    }
                    MC_CHECK(bool(h2), "move-null", "move-assigned handle is null");
                    point();
                }
                delete w2;
                break;
            }
            case B_ASSIGN_NULL: {
                // the handle is overwritten with a null handle (one that was unlock()ed): afterwards it is null, and a
                // null handle holds nothing
                W* w2 = make(enabled);
                {
                    H hb = [&] {
                        if constexpr (std::is_same_v<H, lg::lock_handle<Pair, M>>) return w2->lock();
                        else return w2->lock_shared();
                    }();
                    hb.unlock();
                    h = std::move(hb);
                    MC_CHECK(!bool(h), "assign-null", "handle is non-null after a null handle was assigned to it");
                    if (enabled) MC_CHECK(holds(mtx) == 0, "assign-kept-old", "assigning a null handle did not release the lock the target held");
                    point();
                }
                delete w2;
                break;
            }
            default:
                break;
        }
        (void)shared;
    }

    static void body(Spec sp, bool enabled)
    {
        hx::win_reset();
        size_t base_blocks = live_blocks();
        W* w = make(enabled);
        // which lock belongs to the wrapper and where the object is: found by one acquisition through the public
        // interface (no private member names); with locking disabled no lock is taken and mtx stays null
        const Pair* obj = nullptr;
        const void* mtx = hx::probe_lock([&] {
            if constexpr (HasExcl) {
                auto h = w->lock();
                if (h) obj = &*h;
            } else {
                auto h = w->lock_shared();
                if (h) obj = &*h;
            }
        });
        {
            Ctx cx;
            std::vector<int> ids;
            // ---------------- holder
            if (sp.holder != H_NONE) {
                ids.push_back(spawn([w, sp, enabled, mtx, &cx] {
                    if constexpr (HasExcl) {
                        if (sp.holder == H_X) {
                            {
                                auto h = w->lock();
                                MC_CHECK(bool(h), "null-handle", "lock() returned null");
                                if (enabled) MC_CHECK(holds(mtx) == 1, "handle-without-lock", "exclusive handle without the lock");
                                cx.held.set();
                                if (sp.behav == B_HOLD) cx.done.wait();
                                else life_cycle(h, sp.behav, enabled, mtx, false);
                            }
                            if (enabled) MC_CHECK(holds(mtx) == 0, "not-released", "lock still held after the handle died");
                            cx.released.set();
                            return;
                        }
                    }
                    if constexpr (HasSharedSide) {
                        if (sp.holder == H_S) {
                            {
                                auto h = w->lock_shared();
                                MC_CHECK(bool(h), "null-handle", "lock_shared() returned null");
                                if (enabled) MC_CHECK(holds(mtx) != 0, "handle-without-lock", "shared handle without the lock");
                                cx.held.set();
                                if (sp.behav == B_HOLD) cx.done.wait();
                                else life_cycle(h, sp.behav, enabled, mtx, true);
                            }
                            if (enabled) MC_CHECK(holds(mtx) == 0, "not-released", "lock still held after the handle died");
                            cx.released.set();
                            return;
                        }
                    }
                    if constexpr (IsDeferred && has_shared<M>::value) {
                        if (sp.holder == H_S_PENDING) {
                            {
                                auto h = w->lock_shared();
                                MC_CHECK(bool(h), "null-handle", "lock_shared() returned null");
                                // queued: the exclusive try-lock fails because this thread holds shared access
                                w->modify_detach([](Pair& p) { hx::bump_pair(p, "queued modification"); });
                                cx.held.set();
                                cx.done.wait();
                            }
                            cx.released.set();
                            return;
                        }
                    }
                    if constexpr (IsOrdered) {
                        if (sp.holder == H_MODIFY) {
                            w->modify([&](Pair& p) {
                                hx::WriteWin win(&p, "modify functor");
                                cx.held.set();
                                cx.done.wait();
                            });
                            cx.released.set();
                            return;
                        }
                    }
                    if constexpr (IsDeferred) {
                        if (sp.holder == H_DETACH) {
                            w->modify_detach([&](Pair& p) {
                                hx::WriteWin win(&p, "deferred functor");
                                cx.held.set();
                                cx.done.wait();
                            });
                            cx.released.set();
                            return;
                        }
                    }
                }));
            }
            // ---------------- contender
            ids.push_back(spawn([w, sp, enabled, mtx, obj, &cx] {
                if (sp.holder != H_NONE) cx.held.wait();
                uint64_t ops0 = my_lock_ops(), blk0 = my_block_count();
                bool shared_form = (sp.cont >= C_STRY && sp.cont <= C_STRY_UNTIL) || sp.cont == C_LOCK_SHARED || sp.cont == C_CONST_LOCK || sp.cont == C_STRY_THEN_LOCK;
                bool timed = sp.cont == C_TRY_FOR || sp.cont == C_TRY_UNTIL || sp.cont == C_STRY_FOR || sp.cont == C_STRY_UNTIL;
                // expectation when the holder keeps its handle for the whole attempt
                int expect = -1;
                if (sp.holder == H_NONE) expect = 1;
                else if (sp.behav == B_HOLD) {
                    bool holder_excl = sp.holder == H_X || sp.holder == H_MODIFY || sp.holder == H_DETACH;
                    // (H_S_PENDING: a reader with a queued write behind it; another reader's try must still return at once)
                    if (holder_excl || !shared_form) expect = 0;
                    else expect = has_shared<M>::value ? 1 : 0;  // reader vs reader
                }
                if constexpr (HasExcl) {
                    if (sp.cont == C_TRY) {
                        auto c = w->try_lock();
                        check_contender(c, enabled, mtx, obj, false, ops0, blk0, false, expect);
                    }
                    if constexpr (is_timed<M>::value) {
                        if (sp.cont == C_TRY_FOR) {
                            auto c = w->try_lock_for(5ms);
                            check_contender(c, enabled, mtx, obj, false, ops0, blk0, true, expect);
                        }
                        if (sp.cont == C_TRY_UNTIL) {
                            auto c = w->try_lock_until(std::chrono::steady_clock::now() + 5ms);
                            check_contender(c, enabled, mtx, obj, false, ops0, blk0, true, expect);
                        }
                    }
                }
                if constexpr (HasSharedSide) {
                    if (sp.cont == C_STRY) {
                        auto c = w->try_lock_shared();
                        check_contender(c, enabled, mtx, obj, true, ops0, blk0, false, expect);
                    }
                    if constexpr (is_timed<M>::value) {
                        if (sp.cont == C_STRY_FOR) {
                            auto c = w->try_lock_shared_for(5ms);
                            check_contender(c, enabled, mtx, obj, true, ops0, blk0, true, expect);
                        }
                        if (sp.cont == C_STRY_UNTIL) {
                            auto c = w->try_lock_shared_until(std::chrono::steady_clock::now() + 5ms);
                            check_contender(c, enabled, mtx, obj, true, ops0, blk0, true, expect);
                        }
                    }
                }
                // blocking forms: must return a non-null handle holding the lock (or, disabled, without touching it)
                if constexpr (HasExcl) {
                    if (sp.cont == C_LOCK) {
                        auto c = w->lock();
                        MC_CHECK(bool(c), "null-handle", "lock() returned a null handle");
                        check_contender(c, enabled, mtx, obj, false, ops0, blk0, true, 1);
                    }
                }
                if constexpr (HasSharedSide) {
                    if (sp.cont == C_LOCK_SHARED) {
                        auto c = w->lock_shared();
                        MC_CHECK(bool(c), "null-handle", "lock_shared() returned a null handle");
                        check_contender(c, enabled, mtx, obj, true, ops0, blk0, true, 1);
                    }
                    if constexpr (HasExcl) {  // shared_guarded / shared_guarded_opt have a const lock()
                        if (sp.cont == C_CONST_LOCK) {
                            const W& cw = *w;
                            auto c = cw.lock();
                            MC_CHECK(bool(c), "null-handle", "const lock() returned a null handle");
                            check_contender(c, enabled, mtx, obj, true, ops0, blk0, true, 1);
                        }
                    }
                }
                // a handle that came back null from a try is reused: it is move-assigned a blocking acquisition
                if constexpr (HasExcl) {
                    if (sp.cont == C_TRY_THEN_LOCK) {
                        auto c = w->try_lock();
                        if (!c) c = w->lock();
                        MC_CHECK(bool(c), "null-handle", "handle null after being assigned lock()");
                        check_contender(c, enabled, mtx, obj, false, ops0, blk0, true, 1);
                    }
                }
                if constexpr (HasSharedSide) {
                    if (sp.cont == C_STRY_THEN_LOCK) {
                        auto c = w->try_lock_shared();
                        if (!c) c = w->lock_shared();
                        MC_CHECK(bool(c), "null-handle", "handle null after being assigned lock_shared()");
                        check_contender(c, enabled, mtx, obj, true, ops0, blk0, true, 1);
                    }
                }
                if (enabled) MC_CHECK(holds(mtx) == 0, "not-released", "contender still holds the lock after its handle died");
                cx.done.set();
            }));
            // ---------------- third thread: a blocking acquisition after the release must succeed
            if (sp.third) {
                ids.push_back(spawn([w, sp, &cx] {
                    if (sp.holder != H_NONE) cx.released.wait();
                    if constexpr (HasExcl) {
                        auto h = w->lock();
                        MC_CHECK(bool(h), "null-handle", "lock() returned null");
                        hx::bump_pair(*h, "third thread");
                    } else if constexpr (IsOrdered) {
                        w->modify([](Pair& p) { hx::bump_pair(p, "third thread"); });
                    } else {
                        auto h = w->lock_shared();
                        MC_CHECK(bool(h), "null-handle", "lock_shared() returned null");
                        hx::read_pair(*h, "third thread");
                    }
                }));
            }
            for (int id : ids) join(id);
        }
        MC_CHECK(!is_locked(mtx), "leaked-lock", "the wrapper's mutex is still locked after every handle died");
        delete w;
        MC_CHECK(live_blocks() == base_blocks, "leak", "%zu arena blocks not freed", live_blocks() - base_blocks);
    }

    static void items(const Options& o, std::vector<Item>& out, const std::string& name)
    {
        bool thorough = o.tier == "thorough";
        std::vector<int> holders = {H_NONE};
        if (HasExcl) holders.push_back(H_X);
        if (HasSharedSide) holders.push_back(H_S);
        if (IsOrdered) holders.push_back(H_MODIFY);
        if (IsDeferred) holders.push_back(H_DETACH);
        if (IsDeferred && has_shared<M>::value) holders.push_back(H_S_PENDING);
        std::vector<int> conts;
        if (HasExcl) {
            conts.push_back(C_TRY);
            if (is_timed<M>::value) {
                conts.push_back(C_TRY_FOR);
                conts.push_back(C_TRY_UNTIL);
            }
        }
        if (HasSharedSide) {
            conts.push_back(C_STRY);
            if (is_timed<M>::value) {
                conts.push_back(C_STRY_FOR);
                conts.push_back(C_STRY_UNTIL);
            }
        }
        std::vector<int> blocking;
        if (HasExcl) blocking.push_back(C_LOCK);
        if (HasSharedSide) blocking.push_back(C_LOCK_SHARED);
        if (HasExcl && HasSharedSide) blocking.push_back(C_CONST_LOCK);
        if (HasExcl) blocking.push_back(C_TRY_THEN_LOCK);
        if (HasSharedSide) blocking.push_back(C_STRY_THEN_LOCK);
        for (int en = 1; en >= (IsOpt ? 0 : 1); --en) {
            // blocking acquisitions: against a concurrently releasing holder (enabled), against a holder that
            // keeps its handle (disabled mode only: must not wait), and alone
            for (int h : holders)
                for (int b = B_HOLD; b <= B_UNLOCK; b++)
                    for (int c : blocking) {
                        if (h == H_NONE && b != B_HOLD) continue;
                        if ((h == H_MODIFY || h == H_DETACH || h == H_S_PENDING)) continue;
                        if (en && h != H_NONE && b == B_HOLD) continue;  // would rightly wait for ever
                        if (!en && b != B_HOLD) continue;
                        Spec sp{h, b, c, false};
                        Item it;
                        it.name = name + (IsOpt ? (en ? "(locking on)" : "(locking off)") : "") + " | " + holdern[h] +
                            (h != H_NONE ? std::string(", ") + behavn[b] : "") + " | contender: " + contn[c];
                        it.body = [sp, en] { body(sp, en); };
                        it.bounds = hx::tier_bounds(o, 3, 6);
                        out.push_back(it);
                    }
            for (int h : holders)
                for (int b = B_HOLD; b <= B_ASSIGN_NULL; b++) {
                    if ((h == H_NONE) && b != B_HOLD) continue;
                    if ((h == H_MODIFY || h == H_DETACH || h == H_S_PENDING) && b != B_HOLD) continue;
                    for (int c : conts)
                        for (int third = 0; third < 2; third++) {
                            if (third && h == H_NONE) continue;
                            if (!thorough && third && (b == B_HOLD)) continue;
                            if (!en && (b != B_HOLD || third)) continue;  // disabled mode: contention only
                            Spec sp{h, b, c, (bool)third};
                            Item it;
                            it.name = name + (IsOpt ? (en ? "(locking on)" : "(locking off)") : "") + " | " + holdern[h] +
                                (h != H_NONE ? std::string(", ") + behavn[b] : "") + " | contender: " + contn[c] +
                                (third ? " | third thread: blocking acquisition after release" : "");
                            it.body = [sp, en] { body(sp, en); };
                            it.bounds = hx::tier_bounds(o, 3, 6);
                            out.push_back(it);
                        }
                }
        }
    }
};

template<class M>
void for_mutex(const Options& o, std::vector<Item>& items, const std::string& m, bool exclusive_types)
{
    if (exclusive_types) {
        Gen<lg::guarded<Pair, M>, M, true, false, false, false, false>::items(o, items, "guarded<Pair," + m + ">");
        Gen<lg::guarded_opt<Pair, M>, M, true, false, false, false, true>::items(o, items, "guarded_opt<Pair," + m + ">");
    }
    Gen<lg::shared_guarded<Pair, M>, M, true, true, false, false, false>::items(o, items, "shared_guarded<Pair," + m + ">");
    Gen<lg::shared_guarded_opt<Pair, M>, M, true, true, false, false, true>::items(o, items, "shared_guarded_opt<Pair," + m + ">");
    Gen<lg::ordered_guarded<Pair, M>, M, false, true, true, false, false>::items(o, items, "ordered_guarded<Pair," + m + ">");
    Gen<lg::deferred_guarded<Pair, M>, M, false, true, false, true, false>::items(o, items, "deferred_guarded<Pair," + m + ">");
}

void make_items(const Options& o, std::vector<Item>& items)
{
    for_mutex<std::mutex>(o, items, "mutex", true);
    for_mutex<std::timed_mutex>(o, items, "timed_mutex", true);
    for_mutex<std::shared_mutex>(o, items, "shared_mutex", false);
    for_mutex<std::shared_timed_mutex>(o, items, "shared_timed_mutex", false);
}
}  // namespace

int main(int argc, char** argv)
{
    return run_main(argc, argv, "C08", "C08", make_items);
}
