// C11: TriggerVariable waits end only on their event, and the event wakes them
#include <algorithm>
#include <chrono>
#include "common.h"
#include "gmlc/concurrency/TriggerVariable.hpp"

using gmlc::concurrency::TriggerVariable;
using namespace mcrt;

namespace {
enum Kind { ACTIVATE, TRIGGER, RESET, WAIT, WAIT_FOR, WAIT_ACT, WAIT_FOR_ACT, IS_TRIG, IS_ACT, NKIND };
const char* kn[] = {"activate", "trigger",   "reset",      "wait",       "wait_for",
                    "waitActivation", "wait_forActivation", "isTriggered", "isActive"};
constexpr uint64_t INF = ~uint64_t(0);

struct Ev {
    int kind;
    int fiber;
    uint64_t inv, ret;  // total-order stamps; ret == INF while in progress
    int result;  // bool results; -1 = void / unknown
    const void* lock;  // last lock this call acquired and its global acquisition number (lock model)
    uint64_t seq;
};
// ghost event log (fixed storage: no arena memory)
Ev g_ev[32];
int g_nev;
bool g_init_active;
char g_msg[512];

int begin_op(int kind)
{
    int i = g_nev++;
    g_ev[i] = Ev{kind, self(), stamp(), INF, -1, nullptr, 0};
    return i;
}
void end_op(int i, int result)
{
    g_ev[i].result = result;
    g_ev[i].lock = last_lock_acquired();
    g_ev[i].seq = last_acquire_seq();
    g_ev[i].ret = stamp();
}

bool is_release(const Ev& e) { return (e.kind == TRIGGER && e.result == 1) || e.kind == RESET; }

// ---- oracles; return nullptr if fine, else a message.  `final_` = all
// remaining pending operations are blocked for good (quiescent deadlock).
const char* check_all(bool quiescent)
{
    for (int i = 0; i < g_nev; i++) {
        const Ev& w = g_ev[i];
        // (1) wait / wait_for(true) returned although active and never released
        if ((w.kind == WAIT || (w.kind == WAIT_FOR && w.result == 1)) && w.ret != INF) {
            // activations strictly before w (constructed active counts with stamps 0)
            for (int a = -1; a < g_nev; a++) {
                uint64_t ainv, aret;
                if (a < 0) {
                    if (!g_init_active) continue;
                    ainv = aret = 0;
                } else {
                    if (!(g_ev[a].kind == ACTIVATE && g_ev[a].result == 1)) continue;
                    ainv = g_ev[a].inv;
                    aret = g_ev[a].ret;
                }
                if (!(aret < w.inv)) continue;
                bool reset_between = false;
                for (int r = 0; r < g_nev; r++)
                    if (g_ev[r].kind == RESET && g_ev[r].inv > aret && g_ev[r].inv < w.inv) reset_between = true;
                if (reset_between) continue;
                bool justified = false;
                for (int e = 0; e < g_nev; e++)
                    if (is_release(g_ev[e]) && g_ev[e].ret > ainv && g_ev[e].inv < w.ret) justified = true;
                // a trigger still in progress at the end may yet succeed: be permissive
                for (int e = 0; e < g_nev; e++)
                    if (g_ev[e].kind == TRIGGER && g_ev[e].ret == INF && g_ev[e].inv < w.ret) justified = true;
                if (!justified) {
                    snprintf(g_msg, sizeof g_msg,
                             "%s (fiber %d) returned although the variable was activated before it and no "
                             "trigger()/reset() followed that activation",
                             kn[w.kind], w.fiber);
                    return g_msg;
                }
            }
        }
        // (2) waitActivation / wait_forActivation(true) returned without activation
        if ((w.kind == WAIT_ACT || (w.kind == WAIT_FOR_ACT && w.result == 1)) && w.ret != INF) {
            // last reset that returned before w was invoked
            uint64_t rinv = 0;
            bool have_reset = false;
            for (int r = 0; r < g_nev; r++)
                if (g_ev[r].kind == RESET && g_ev[r].ret < w.inv) {
                    have_reset = true;
                    if (g_ev[r].inv > rinv) rinv = g_ev[r].inv;
                }
            bool ok = (!have_reset && g_init_active);
            for (int a = 0; a < g_nev; a++)
                if (g_ev[a].kind == ACTIVATE && g_ev[a].ret > rinv && g_ev[a].inv < w.ret) ok = true;
            if (!ok) {
                snprintf(g_msg, sizeof g_msg, "%s (fiber %d) returned although no activation was in force or in progress",
                         kn[w.kind], w.fiber);
                return g_msg;
            }
        }
        // (3) timed forms report false although the event had happened
        if (w.kind == WAIT_FOR && w.result == 0 && w.ret != INF) {
            for (int e = 0; e < g_nev; e++) {
                if (!(g_ev[e].kind == TRIGGER && g_ev[e].result == 1)) continue;
                if (!(g_ev[e].ret < w.inv)) continue;
                bool excused = false;
                for (int a = 0; a < g_nev; a++)
                    if (g_ev[a].kind == ACTIVATE && g_ev[a].ret > g_ev[e].inv && g_ev[a].inv < w.ret) excused = true;
                if (!excused) {
                    snprintf(g_msg, sizeof g_msg,
                             "wait_for (fiber %d) returned false although trigger() had succeeded before it began",
                             w.fiber);
                    return g_msg;
                }
            }
        }
        // (3') the waiter re-acquires its mutex before it gives up: if a successful trigger()'s critical
        // section on that same mutex came before the waiter's last one, the event had happened when it gave up
        if (w.kind == WAIT_FOR && w.result == 0 && w.ret != INF && w.lock) {
            for (int e = 0; e < g_nev; e++) {
                if (!(g_ev[e].kind == TRIGGER && g_ev[e].result == 1 && g_ev[e].ret != INF)) continue;
                if (g_ev[e].lock != w.lock || !(g_ev[e].seq < w.seq)) continue;
                bool excused = false;
                for (int a = 0; a < g_nev; a++)
                    if (g_ev[a].kind == ACTIVATE && g_ev[a].ret > g_ev[e].inv && g_ev[a].inv < w.ret) excused = true;
                for (int r = 0; r < g_nev; r++)
                    if (g_ev[r].kind == RESET && g_ev[r].ret > g_ev[e].inv && g_ev[r].inv < w.ret) excused = true;
                if (!excused) {
                    snprintf(g_msg, sizeof g_msg,
                             "wait_for (fiber %d) returned false although a successful trigger() had completed its critical "
                             "section before the waiter last held the same mutex (the event had happened when it gave up)",
                             w.fiber);
                    return g_msg;
                }
            }
        }
        if (w.kind == WAIT_FOR_ACT && w.result == 0 && w.ret != INF && w.lock) {
            for (int a = 0; a < g_nev; a++) {
                if (!(g_ev[a].kind == ACTIVATE && g_ev[a].result == 1 && g_ev[a].ret != INF)) continue;
                if (g_ev[a].lock != w.lock || !(g_ev[a].seq < w.seq)) continue;
                bool excused = false;
                for (int r = 0; r < g_nev; r++)
                    if (g_ev[r].kind == RESET && g_ev[r].ret > g_ev[a].inv && g_ev[r].inv < w.ret) excused = true;
                if (!excused) {
                    snprintf(g_msg, sizeof g_msg,
                             "wait_forActivation (fiber %d) returned false although a successful activate() had completed its "
                             "critical section before the waiter last held the same mutex", w.fiber);
                    return g_msg;
                }
            }
        }
        if (w.kind == WAIT_FOR_ACT && w.result == 0 && w.ret != INF) {
            for (int a = -1; a < g_nev; a++) {
                uint64_t ainv, aret;
                if (a < 0) {
                    if (!g_init_active) continue;
                    ainv = aret = 0;
                } else {
                    if (!(g_ev[a].kind == ACTIVATE && g_ev[a].result == 1)) continue;
                    ainv = g_ev[a].inv;
                    aret = g_ev[a].ret;
                }
                if (!(aret < w.inv)) continue;
                bool excused = false;
                for (int r = 0; r < g_nev; r++)
                    if (g_ev[r].kind == RESET && g_ev[r].ret > ainv && g_ev[r].inv < w.ret) excused = true;
                if (!excused) {
                    snprintf(g_msg, sizeof g_msg,
                             "wait_forActivation (fiber %d) returned false although the variable was active", w.fiber);
                    return g_msg;
                }
            }
        }
        // (4) trigger on an inactive variable must fail; isActive after reset
        if (w.kind == TRIGGER && w.result == 1) {
            bool possibly_active = g_init_active;
            // inactive for the whole duration if: no activate invoked before w.ret, and
            // (not constructed active, or a reset returned before w.inv)
            bool reset_before = false;
            uint64_t rinv = 0;
            for (int r = 0; r < g_nev; r++)
                if (g_ev[r].kind == RESET && g_ev[r].ret < w.inv) {
                    reset_before = true;
                    rinv = std::max(rinv, g_ev[r].inv);
                }
            if (reset_before) possibly_active = false;
            for (int a = 0; a < g_nev; a++)
                if (g_ev[a].kind == ACTIVATE && g_ev[a].inv < w.ret && g_ev[a].ret > rinv) possibly_active = true;
            if (!possibly_active) {
                snprintf(g_msg, sizeof g_msg, "trigger() (fiber %d) succeeded on a variable that was inactive for its whole duration",
                         w.fiber);
                return g_msg;
            }
        }
        if (w.kind == IS_ACT && w.ret != INF) {
            // after reset with no activation since -> false
            bool must_false = false, must_true = false;
            for (int r = 0; r < g_nev; r++) {
                if (!(g_ev[r].kind == RESET && g_ev[r].ret < w.inv)) continue;
                bool act = false;
                for (int a = 0; a < g_nev; a++)
                    if (g_ev[a].kind == ACTIVATE && g_ev[a].ret > g_ev[r].inv && g_ev[a].inv < w.ret) act = true;
                if (!act) must_false = true;
            }
            for (int a = -1; a < g_nev; a++) {
                uint64_t ainv, aret;
                if (a < 0) {
                    if (!g_init_active) continue;
                    ainv = aret = 0;
                } else {
                    if (!(g_ev[a].kind == ACTIVATE && g_ev[a].result == 1)) continue;
                    ainv = g_ev[a].inv;
                    aret = g_ev[a].ret;
                }
                if (!(aret < w.inv)) continue;
                bool rs = false;
                for (int r = 0; r < g_nev; r++)
                    if (g_ev[r].kind == RESET && g_ev[r].ret > ainv && g_ev[r].inv < w.ret) rs = true;
                if (!rs) must_true = true;
            }
            if (!g_init_active) {
                bool any = false;
                for (int a = 0; a < g_nev; a++)
                    if (g_ev[a].kind == ACTIVATE && g_ev[a].inv < w.ret) any = true;
                if (!any) must_false = true;
            }
            if (must_false && w.result == 1) {
                snprintf(g_msg, sizeof g_msg, "isActive() returned true although the variable was reset/inactive and not re-activated");
                return g_msg;
            }
            if (must_true && w.result == 0) {
                snprintf(g_msg, sizeof g_msg, "isActive() returned false although the variable was activated and not reset");
                return g_msg;
            }
        }
        if (w.kind == IS_TRIG && w.ret != INF) {
            bool any_rel = false;
            for (int e = 0; e < g_nev; e++)
                if ((g_ev[e].kind == TRIGGER || g_ev[e].kind == RESET) && g_ev[e].inv < w.ret) any_rel = true;
            if (!any_rel && w.result == 1) {
                snprintf(g_msg, sizeof g_msg, "isTriggered() returned true although no trigger()/reset() was ever invoked");
                return g_msg;
            }
            for (int e = 0; e < g_nev; e++) {
                if (!(g_ev[e].kind == TRIGGER && g_ev[e].result == 1 && g_ev[e].ret < w.inv)) continue;
                bool excused = false;
                for (int a = 0; a < g_nev; a++)
                    if (g_ev[a].kind == ACTIVATE && g_ev[a].ret > g_ev[e].inv && g_ev[a].inv < w.ret) excused = true;
                if (!excused && w.result == 0) {
                    snprintf(g_msg, sizeof g_msg, "isTriggered() returned false after a successful trigger() with no re-activation");
                    return g_msg;
                }
            }
        }
        // (5) liveness: blocked for good although the event happened
        if (quiescent && w.ret == INF) {
            if (w.kind == WAIT || w.kind == WAIT_FOR) {
                for (int e = 0; e < g_nev; e++) {
                    if (!(is_release(g_ev[e]) && g_ev[e].ret != INF)) continue;
                    bool excused = false;
                    // re-activation excuses the hang only if it can have cleared the flag after the release event: it
                    // must not have returned before the release was invoked, and - when the release completed while the
                    // waiter was already waiting - it must not have returned before the waiter began either (an
                    // activation that was over before the wait started is the one the waiter is waiting on)
                    for (int a = 0; a < g_nev; a++) {
                        if (g_ev[a].kind != ACTIVATE || g_ev[a].result == 0) continue;
                        if (!(g_ev[a].ret > g_ev[e].inv)) continue;
                        if (g_ev[e].ret > w.inv && !(g_ev[a].ret > w.inv)) continue;
                        excused = true;
                    }
                    if (!excused) {
                        snprintf(g_msg, sizeof g_msg,
                                 "lost wake-up: %s (fiber %d) is blocked for good although %s succeeded and the "
                                 "variable was not re-activated",
                                 kn[w.kind], w.fiber, kn[g_ev[e].kind]);
                        return g_msg;
                    }
                }
            } else if (w.kind == WAIT_ACT || w.kind == WAIT_FOR_ACT) {
                for (int a = -1; a < g_nev; a++) {
                    uint64_t ainv;
                    if (a < 0) {
                        if (!g_init_active) continue;
                        ainv = 0;
                    } else {
                        if (!(g_ev[a].kind == ACTIVATE && g_ev[a].result == 1 && g_ev[a].ret != INF)) continue;
                        ainv = g_ev[a].inv;
                    }
                    bool excused = false;
                    for (int r = 0; r < g_nev; r++)
                        if (g_ev[r].kind == RESET && g_ev[r].ret > ainv) excused = true;
                    if (!excused) {
                        snprintf(g_msg, sizeof g_msg,
                                 "lost wake-up: %s (fiber %d) is blocked for good although the variable is active",
                                 kn[w.kind], w.fiber);
                        return g_msg;
                    }
                }
            } else {
                snprintf(g_msg, sizeof g_msg, "%s (fiber %d) never returned", kn[w.kind], w.fiber);
                return g_msg;
            }
        }
    }
    return nullptr;
}

struct Prog {
    bool active;
    std::vector<std::vector<int>> threads;
};
std::string text(const Prog& p)
{
    std::string s = std::string("TriggerVariable(") + (p.active ? "true" : "false") + ")";
    for (auto& t : p.threads) {
        s += " | ";
        for (size_t i = 0; i < t.size(); i++) s += std::string(i ? ";" : "") + kn[t[i]];
    }
    return s;
}

void run_op(TriggerVariable* tv, int k)
{
    using namespace std::chrono_literals;
    int i = begin_op(k);
    int res = -1;
    switch (k) {
        case ACTIVATE: res = tv->activate(); break;
        case TRIGGER: res = tv->trigger(); break;
        case RESET: tv->reset(); break;
        case WAIT: res = tv->wait(); break;
        case WAIT_FOR: res = tv->wait_for(10ms); break;
        case WAIT_ACT: tv->waitActivation(); break;
        case WAIT_FOR_ACT: res = tv->wait_forActivation(10ms); break;
        case IS_TRIG: res = tv->isTriggered(); break;
        case IS_ACT: res = tv->isActive(); break;
    }
    end_op(i, res);
    observe((uint64_t)k * 4 + (res + 1));
}

void body(const Prog& p)
{
    g_nev = 0;
    g_init_active = p.active;
    TriggerVariable* tv = new TriggerVariable(p.active);
    std::function<const char*()> dh = [] { return check_all(true); };
    on_deadlock(&dh);
    std::vector<int> ids;
    for (auto& ops : p.threads)
        ids.push_back(spawn([tv, ops] {
            for (int k : ops) run_op(tv, k);
        }));
    for (int id : ids) join(id);
    const char* m = check_all(false);
    MC_CHECK(m == nullptr, "trigger-semantics", "%s", m);
    cover(0);
    delete tv;
}

void make_items(const Options& o, std::vector<Item>& items)
{
    bool thorough = o.tier == "thorough";
    auto seq2 = hx::sequences(NKIND, 2);
    auto seq1 = hx::sequences(NKIND, 1);
    auto add = [&](const std::vector<std::vector<int>>& seqs, int T) {
        hx::multisets((int)seqs.size(), T, [&](const std::vector<int>& idx) {
            for (int act = 0; act < 2; act++) {
                Prog p;
                p.active = act;
                bool waiter = false, mutator = false;
                for (int i : idx) {
                    p.threads.push_back(seqs[i]);
                    for (int k : seqs[i]) {
                        if (k >= WAIT && k <= WAIT_FOR_ACT) waiter = true;
                        if (k <= RESET) mutator = true;
                    }
                }
                // programs of pure queries or pure mutators cannot show a wait problem,
                // but they still exercise oracle (4); keep mutator-only ones in thorough
                if (!waiter && !(thorough && mutator)) continue;
                Item it;
                it.name = text(p);
                it.body = [p] { body(p); };
                it.bounds = hx::tier_bounds(o, 2, 3);
                it.bounds.S = thorough ? 2 : 1;
                items.push_back(it);
            }
        });
    };
    add(seq2, 2);
    add(seq1, 3);
    // four threads, one operation each: at least one waiter and two state-changing operations
    hx::multisets((int)seq1.size(), 4, [&](const std::vector<int>& idx) {
        int waiters = 0, mutators = 0;
        for (int i : idx) {
            int k = seq1[i][0];
            if (k >= WAIT && k <= WAIT_FOR_ACT) waiters++;
            if (k <= RESET) mutators++;
        }
        if (waiters != 1 || mutators < 3) return;
        for (int act = 0; act < 2; act++) {
            Prog p;
            p.active = act;
            for (int i : idx) p.threads.push_back(seq1[i]);
            Item it;
            it.name = text(p);
            it.body = [p] { body(p); };
            it.bounds = hx::tier_bounds(o, 2, 3);
            it.bounds.S = 1;
            items.push_back(it);
        }
    });
    if (thorough) {
        // three threads, one of which may issue two operations
        auto s3 = hx::sequences(NKIND, 2);
        hx::multisets((int)seq1.size(), 2, [&](const std::vector<int>& idx) {
            for (auto& two : s3) {
                if (two.size() != 2) continue;
                for (int act = 0; act < 2; act++) {
                    Prog p;
                    p.active = act;
                    p.threads = {seq1[idx[0]], seq1[idx[1]], two};
                    bool waiter = false;
                    for (auto& t : p.threads)
                        for (int k : t)
                            if (k >= WAIT && k <= WAIT_FOR_ACT) waiter = true;
                    if (!waiter) continue;
                    Item it;
                    it.name = text(p);
                    it.body = [p] { body(p); };
                    it.bounds = hx::tier_bounds(o, 2, 2);
                    it.bounds.S = 1;
                    items.push_back(it);
                }
            }
        });
    }
}
}  // namespace

int main(int argc, char** argv)
{
    return run_main(argc, argv, "C11", "C11", make_items);
}
