// C07: publication programs - every access the library grants happens-after the
// conflicting earlier ones.  Thread A writes plain data and performs the publishing
// operation of a protocol; thread B performs the matching observing operation and then
// reads the data plainly.  A missing happens-before edge is reported by the vector-clock
// race detector; non-seq_cst loads may read stale values (reads-from choices).
#define HX_MAIN
#include <chrono>
#include <future>
#include <mutex>
#include <shared_mutex>
#include "common.h"
#include "gmlc/concurrency/Barrier.hpp"
#include "gmlc/concurrency/DelayedObjects.hpp"
#include "gmlc/concurrency/Latch.hpp"
#include "gmlc/concurrency/TriggerVariable.hpp"
#include "gmlc/concurrency/TripWire.hpp"
#include "gmlc/libguarded/atomic_guarded.hpp"
#include "gmlc/libguarded/cow_guarded.hpp"
#include "gmlc/libguarded/deferred_guarded.hpp"
#include "gmlc/libguarded/guarded.hpp"
#include "gmlc/libguarded/lr_guarded.hpp"
#include "gmlc/libguarded/ordered_guarded.hpp"
#include "gmlc/libguarded/rcu_guarded.hpp"
#include "gmlc/libguarded/rcu_list.hpp"
#include "gmlc/libguarded/shared_guarded.hpp"

using namespace mcrt;
using namespace std::chrono_literals;
namespace lg = gmlc::libguarded;
namespace gc = gmlc::concurrency;

namespace {
// plain (non-atomic, no scheduling points) payload: only happens-before protects it
struct Box {
    int x = 0, y = 0;
};
struct Side {  // data outside the wrapper, published by the operation
    int d1 = 0, d2 = 0;
};
void wr(Side* s)
{
    s->d1 = 41;
    s->d2 = 42;
}
void rd(Side* s, const char* what)
{
    int a = s->d1, b = s->d2;
    MC_CHECK(a == 41 && b == 42, "unpublished", "%s: data written before the publishing operation is not visible (%d,%d)", what, a, b);
    cover(1);
}

template<class F>
void add(const Options& o, std::vector<Item>& items, const std::string& name, F body, int Pq = 3, int Pt = 6)
{
    Item it;
    it.name = name;
    it.body = body;
    it.bounds = hx::tier_bounds(o, Pq, Pt);
    it.bounds.R = 2;
    items.push_back(it);
}

template<class M>
void guarded_prog()
{
    auto* g = new lg::guarded<Box, M>();
    auto* s = new Side();
    int a = spawn([g, s] {
        wr(s);
        auto h = g->lock();
        h->x = 1;
        h->y = 1;
    });
    int b = spawn([g, s] {
        auto h = g->lock();
        int x = h->x, y = h->y;
        MC_CHECK(x == y, "torn", "guarded object seen torn");
        if (x == 1) rd(s, "guarded handle");
    });
    join(a);
    join(b);
    delete s;
    delete g;
}
template<class M>
void shared_prog()
{
    auto* g = new lg::shared_guarded<Box, M>();
    auto* s = new Side();
    int a = spawn([g, s] {
        wr(s);
        auto h = g->lock();
        h->x = 1;
        h->y = 1;
    });
    auto reader = [g, s] {
        auto h = g->lock_shared();
        int x = h->x, y = h->y;
        MC_CHECK(x == y, "torn", "shared_guarded object seen torn");
        if (x == 1) rd(s, "shared_guarded shared handle");
    };
    int b = spawn(reader), c = spawn(reader);
    join(a);
    join(b);
    join(c);
    delete s;
    delete g;
}
template<class M>
void ordered_prog()
{
    auto* g = new lg::ordered_guarded<Box, M>();
    auto* s = new Side();
    int a = spawn([g, s] {
        wr(s);
        g->modify([](Box& b) {
            b.x = 1;
            b.y = 1;
        });
    });
    int b = spawn([g, s] {
        int x = g->read([](const Box& bx) {
            MC_CHECK(bx.x == bx.y, "torn", "ordered_guarded object seen torn");
            return bx.x;
        });
        if (x == 1) rd(s, "ordered_guarded read");
        Box c = g->load();
        if (c.x == 1) rd(s, "ordered_guarded load");
    });
    join(a);
    join(b);
    delete s;
    delete g;
}
void lr_prog(int readers)
{
    auto* g = new lg::lr_guarded<Box>();
    auto* s = new Side();
    std::vector<int> ids;
    ids.push_back(spawn([g, s] {
        wr(s);
        g->modify([](Box& b) {
            b.x++;
            b.y++;
        });
        g->modify([](Box& b) {
            b.x++;
            b.y++;
        });
    }));
    for (int r = 0; r < readers; r++)
        ids.push_back(spawn([g, s] {
            for (int i = 0; i < 2; i++) {
                auto h = g->lock_shared();
                int x = h->x, y = h->y;
                MC_CHECK(x == y, "torn", "lr_guarded object seen torn (%d,%d)", x, y);
                if (x >= 1) rd(s, "lr_guarded shared handle");
            }
        }));
    for (int id : ids) join(id);
    delete s;
    delete g;
}
void cow_prog()
{
    auto* g = new lg::cow_guarded<Box>();
    auto* s = new Side();
    int a = spawn([g, s] {
        wr(s);
        auto h = g->lock();
        h->x = 1;
        h->y = 1;
    });
    int b = spawn([g, s] {
        for (int i = 0; i < 2; i++) {
            auto h = g->lock_shared();
            int x = h->x, y = h->y;
            MC_CHECK(x == y, "torn", "cow snapshot seen torn");
            if (x == 1) rd(s, "cow_guarded snapshot");
        }
    });
    join(a);
    join(b);
    delete s;
    delete g;
}
void deferred_prog()
{
    auto* g = new lg::deferred_guarded<Box>();
    auto* s = new Side();
    int a = spawn([g, s] {
        wr(s);
        g->modify_detach([](Box& b) {
            b.x = 1;
            b.y = 1;
        });
    });
    int b = spawn([g, s] {
        for (int i = 0; i < 2; i++) {
            auto h = g->lock_shared();
            int x = h->x, y = h->y;
            MC_CHECK(x == y, "torn", "deferred_guarded object seen torn");
            if (x == 1) rd(s, "deferred_guarded shared handle");
        }
    });
    join(a);
    join(b);
    {
        auto h = g->lock_shared();
        MC_CHECK(h->x == 1, "stranded", "modification not applied");
    }
    delete s;
    delete g;
}
void rcu_prog(bool front)
{
    using L = lg::rcu_list<Box>;
    auto* g = new lg::rcu_guarded<L>();
    auto* s = new Side();
    {
        auto h = g->lock_write();
        h->push_back(Box{7, 7});
    }
    int a = spawn([g, s, front] {
        wr(s);
        auto h = g->lock_write();
        if (front) h->push_front(Box{1, 1});
        else h->emplace_back(Box{1, 1});
    });
    int b = spawn([g, s] {
        auto h = g->lock_read();
        for (auto it = h->begin(); it != h->end(); ++it) {
            int x = it->x, y = it->y;
            MC_CHECK(x == y, "torn", "rcu element seen torn / half constructed (%d,%d)", x, y);
            if (x == 1) rd(s, "rcu_list traversal");
        }
    });
    int c = spawn([g] {
        auto h = g->lock_write();
        auto it = h->begin();
        if (it != h->end()) h->erase(it);
    });
    join(a);
    join(b);
    join(c);
    delete s;
    delete g;
}
void latch_prog()
{
    auto* l = new gc::Latch(2);
    auto* s = new Side();
    int a = spawn([l, s] {
        wr(s);
        l->arrive();
    });
    int c = spawn([l] { l->arrive(); });
    int b = spawn([l, s] {
        l->wait();
        rd(s, "Latch::wait");
    });
    join(a);
    join(b);
    join(c);
    delete s;
    delete l;
}
void barrier_prog()
{
    auto* br = new gc::Barrier(2);
    auto* s = new Side();
    auto* s2 = new Side();
    int a = spawn([br, s, s2] {
        wr(s);
        br->wait();
        br->wait();
        rd(s2, "Barrier second generation");
    });
    int b = spawn([br, s, s2] {
        br->wait();
        rd(s, "Barrier::wait");
        wr(s2);
        br->wait();
    });
    join(a);
    join(b);
    delete s;
    delete s2;
    delete br;
}
// Three participants, one of which leaves through wait_and_drop() in the first generation: what the first generation
// leaves behind (count / threshold) decides who is released in the second one, and with it what is published.
void barrier_drop_prog()
{
    auto* br = new gc::Barrier(3);
    auto* s = new Side();
    auto* s2 = new Side();
    int a = spawn([br, s, s2] {
        wr(s);
        br->wait();
        br->wait();
        rd(s2, "Barrier second generation after a drop");
    });
    int b = spawn([br, s, s2] {
        br->wait();
        rd(s, "Barrier::wait (three participants)");
        wr(s2);
        br->wait();
    });
    int c = spawn([br, s] {
        br->wait_and_drop();
        rd(s, "Barrier::wait_and_drop");
    });
    join(a);
    join(b);
    join(c);
    delete s;
    delete s2;
    delete br;
}
void trigger_prog()
{
    auto* tv = new gc::TriggerVariable(true);
    auto* s = new Side();
    int a = spawn([tv, s] {
        wr(s);
        tv->trigger();
    });
    int b = spawn([tv, s] {
        tv->wait();
        rd(s, "TriggerVariable::wait");
    });
    int c = spawn([tv, s] {
        if (tv->isTriggered()) rd(s, "TriggerVariable::isTriggered");
    });
    join(a);
    join(b);
    join(c);
    delete s;
    delete tv;
}
void activation_prog()
{
    auto* tv = new gc::TriggerVariable(false);
    auto* s = new Side();
    int a = spawn([tv, s] {
        wr(s);
        tv->activate();
    });
    int b = spawn([tv, s] {
        tv->waitActivation();
        rd(s, "TriggerVariable::waitActivation");
    });
    int c = spawn([tv, s] {
        if (tv->isActive()) rd(s, "TriggerVariable::isActive");
    });
    join(a);
    join(b);
    join(c);
    delete s;
    delete tv;
}
void tripwire_prog()
{
    auto line = gc::make_tripline();
    auto* s = new Side();
    int a = spawn([line, s] {
        gc::TripWireTrigger t(line);
        wr(s);
    });
    int b = spawn([line, s] {
        gc::TripWireDetector d(line);
        for (int i = 0; i < 3; i++)
            if (d.isTripped()) {
                rd(s, "TripWireDetector::isTripped");
                break;
            }
    });
    join(a);
    join(b);
    delete s;
}
void atomic_guarded_prog()
{
    auto* g = new lg::atomic_guarded<Box>();
    auto* s = new Side();
    int a = spawn([g, s] {
        wr(s);
        g->store(Box{1, 1});
    });
    int b = spawn([g, s] {
        Box v = g->load();
        MC_CHECK(v.x == v.y, "torn", "atomic_guarded load torn");
        if (v.x == 1) rd(s, "atomic_guarded::load");
        Box old = g->exchange(Box{2, 2});
        if (old.x == 1) rd(s, "atomic_guarded::exchange");
    });
    join(a);
    join(b);
    delete s;
    delete g;
}
void delayed_objects_prog()
{
    auto* d = new gc::DelayedObjects<int>();
    auto* s = new Side();
    auto* fut = new std::future<int>(d->getFuture(0));
    int a = spawn([d, s] {
        wr(s);
        d->setDelayedValue(0, 5);
    });
    int b = spawn([fut, s] {
        await([fut] { return fut->wait_for(0s) == std::future_status::ready; });
        int v = fut->get();
        MC_CHECK(v == 5, "future-value", "future delivered %d", v);
        rd(s, "DelayedObjects future");
    });
    join(a);
    join(b);
    delete fut;
    delete s;
    delete d;
}

void make_items(const Options& o, std::vector<Item>& items)
{
    add(o, items, "publication: guarded<Box,mutex> lock .. lock", [] { guarded_prog<std::mutex>(); });
    add(o, items, "publication: guarded<Box,timed_mutex> lock .. lock", [] { guarded_prog<std::timed_mutex>(); });
    add(o, items, "publication: shared_guarded<Box,shared_timed_mutex> lock .. 2x lock_shared", [] { shared_prog<std::shared_timed_mutex>(); }, 3, 4);
    add(o, items, "publication: shared_guarded<Box,shared_mutex> lock .. 2x lock_shared", [] { shared_prog<std::shared_mutex>(); }, 3, 4);
    add(o, items, "publication: shared_guarded<Box,mutex> lock .. 2x lock_shared", [] { shared_prog<std::mutex>(); }, 3, 4);
    add(o, items, "publication: ordered_guarded<Box,shared_timed_mutex> modify .. read/load", [] { ordered_prog<std::shared_timed_mutex>(); });
    add(o, items, "publication: ordered_guarded<Box,mutex> modify .. read/load", [] { ordered_prog<std::mutex>(); });
    add(o, items, "publication: lr_guarded<Box> 2x modify .. 1 reader x 2", [] { lr_prog(1); });
    add(o, items, "publication: lr_guarded<Box> 2x modify .. 2 readers x 2", [] { lr_prog(2); }, 3, 3);
    add(o, items, "publication: cow_guarded<Box> commit .. 2 snapshots", [] { cow_prog(); }, 3, 4);
    add(o, items, "publication: deferred_guarded<Box> modify_detach .. 2x lock_shared", [] { deferred_prog(); });
    add(o, items, "publication: rcu_list<Box> push_front | traversal | erase", [] { rcu_prog(true); }, 3, 3);
    add(o, items, "publication: rcu_list<Box> emplace_back | traversal | erase", [] { rcu_prog(false); }, 3, 3);
    add(o, items, "publication: Latch arrive, arrive .. wait", [] { latch_prog(); });
    add(o, items, "publication: Barrier two generations", [] { barrier_prog(); });
    add(o, items, "publication: Barrier(3), one participant drops in the first generation, second generation publishes", [] { barrier_drop_prog(); });
    add(o, items, "publication: TriggerVariable trigger .. wait / isTriggered", [] { trigger_prog(); });
    add(o, items, "publication: TriggerVariable activate .. waitActivation / isActive", [] { activation_prog(); });
    add(o, items, "publication: TripWire trigger destruction .. isTripped x3", [] { tripwire_prog(); });
    add(o, items, "publication: atomic_guarded<Box> store .. load / exchange", [] { atomic_guarded_prog(); });
    add(o, items, "publication: DelayedObjects<int> setDelayedValue .. future.get", [] { delayed_objects_prog(); });
}
}  // namespace

int main(int argc, char** argv)
{
    return run_main(argc, argv, "C07", "C07pub", make_items);
}
