// C16: DelayedDestructor destroys late, once, and never under its own lock
#define HX_MAIN
#include <chrono>
#include <memory>
#include "common.h"
#include "gmlc/concurrency/DelayedDestructor.hpp"

using namespace mcrt;
using namespace std::chrono_literals;

namespace {
constexpr int MAXID = 48;
int g_dtor[MAXID], g_cb[MAXID], g_ext[MAXID], g_added[MAXID];
int g_cb_when_dtor[MAXID];
int g_in_destroy[8];  // per fiber: inside a destroyObjects call
int g_dtor_in_destroy[MAXID];
int g_next_id;

enum Reenter { RE_NONE, RE_SIZE, RE_ADD, RE_DESTROY };
enum CbMode { CB_NONE, CB_COUNT, CB_REENTER };

struct Obj;
template<class DD>
struct Env {
    DD* dd;
    std::shared_ptr<Obj> ext[MAXID];
};
void* g_env;  // Env<DD>* of the running execution (type known by the instantiation)
void (*g_reenter_fn)(int mode);

struct Obj {
    int id;
    int reenter;
    Obj(int i, int r): id(i), reenter(r) {}
    ~Obj()
    {
        ++g_dtor[id];
        MC_CHECK(g_dtor[id] == 1, "destroyed-twice", "object %d destroyed %d times", id, g_dtor[id]);
        MC_CHECK(g_ext[id] == 0, "destroyed-while-owned", "object %d destroyed while another owner still holds it", id);
        g_cb_when_dtor[id] = g_cb[id];
        if (g_in_destroy[self()]) g_dtor_in_destroy[id] = 1;
        if (reenter != RE_NONE && g_reenter_fn) g_reenter_fn(reenter);
    }
};

enum OpK : uint8_t { ADD, ADD_EXT, ADD_AGAIN, DROP, DESTROY0, DESTROY_0MS, DESTROY_10MS, DESTROY_250MS, SIZE, NOPK };
const char* opn[] = {"add(new)", "add(new, keep external ref)", "add(same object again)", "drop external ref",
                     "destroyObjects()", "destroyObjects(0ms)", "destroyObjects(10ms)", "destroyObjects(250ms)", "size()"};
struct Prog {
    bool single;  // DelayedDestructorSingleThread
    int cb;
    int reenter;  // destructor behaviour of the objects
    std::vector<std::vector<int>> threads;
};
std::string text(const Prog& p)
{
    static const char* ren[] = {"", " dtor re-enters size()", " dtor re-enters add()", " dtor re-enters destroyObjects()"};
    static const char* cbn[] = {"no callback", "counting callback", "callback re-enters size()"};
    std::string s = std::string(p.single ? "DelayedDestructorSingleThread" : "DelayedDestructor") + " [" + cbn[p.cb] + ren[p.reenter] + "]";
    for (auto& t : p.threads) {
        s += " |";
        for (int k : t) s += std::string(" ") + opn[k];
    }
    return s;
}

// sequential reference (non re-entrant payloads only)
struct Ref {
    std::vector<int> entries;
    bool ext[MAXID] = {false};
    bool dead[MAXID] = {false};
    int cb[MAXID] = {0};
    int count(int id) const
    {
        int c = 0;
        for (int e : entries) c += e == id;
        return c;
    }
    size_t destroy(bool have_cb)
    {
        std::vector<int> keep;
        for (int id : entries) {
            if (count(id) == 1 && !ext[id]) {
                if (have_cb) cb[id]++;
                dead[id] = true;
            } else {
                keep.push_back(id);
            }
        }
        entries = keep;
        return entries.size();
    }
};

template<class DD>
void body_t(const Prog& p)
{
    memset(g_dtor, 0, sizeof g_dtor);
    memset(g_cb, 0, sizeof g_cb);
    memset(g_ext, 0, sizeof g_ext);
    memset(g_added, 0, sizeof g_added);
    memset(g_in_destroy, 0, sizeof g_in_destroy);
    memset(g_dtor_in_destroy, 0, sizeof g_dtor_in_destroy);
    memset(g_cb_when_dtor, 0, sizeof g_cb_when_dtor);
    g_next_id = 1;
    size_t base_blocks = live_blocks();
    auto* env = new Env<DD>();
    g_env = env;
    g_reenter_fn = [](int mode) {
        auto* e = (Env<DD>*)g_env;
        if (!e->dd) return;
        if (mode == RE_SIZE) (void)e->dd->size();
        else if (mode == RE_ADD) {
            int id = g_next_id++;
            if (id < MAXID) {
                g_added[id] = 1;
                e->dd->addObjectsToBeDestroyed(std::make_shared<Obj>(id, RE_NONE));
            }
        } else if (mode == RE_DESTROY) (void)e->dd->destroyObjects();
    };
    const int cbmode = p.cb;
    if (cbmode == CB_NONE) env->dd = new DD();
    else
        env->dd = new DD([env, cbmode](std::shared_ptr<Obj>& ptr) {
            MC_CHECK(bool(ptr), "callback-null", "callback invoked with a null pointer");
            int id = ptr->id;
            ++g_cb[id];
            MC_CHECK(g_cb[id] == 1, "callback-twice", "pre-destruction callback ran %d times for object %d", g_cb[id], id);
            MC_CHECK(g_dtor[id] == 0, "callback-after-dtor", "callback for object %d ran after its destruction", id);
            if (cbmode == CB_REENTER) (void)env->dd->size();
        });
    const bool solo = p.threads.size() == 1 && p.reenter == RE_NONE && p.cb != CB_REENTER;
    Ref* refp = new Ref();
    Ref& ref = *refp;
    {
        std::vector<int> ids;
        for (auto& ops : p.threads) {
            ids.push_back(spawn([env, ops, solo, &ref, reenter = p.reenter, cbmode] {
                DD* dd = env->dd;
                int last_new = 0;
                int mine[MAXID];  // external references created (and still held) by this thread
                int nmine = 0;
                for (int k : ops) {
                    switch (k) {
                        case ADD:
                        case ADD_EXT: {
                            stamp();  // id allocation order is ordering relevant
                            int id = g_next_id++;
                            if (id >= MAXID) break;
                            auto sp = std::make_shared<Obj>(id, reenter);
                            g_added[id] = 1;
                            if (k == ADD_EXT) {
                                env->ext[id] = sp;
                                g_ext[id] = 1;
                                mine[nmine++] = id;
                                if (solo) ref.ext[id] = true;
                            }
                            last_new = id;
                            dd->addObjectsToBeDestroyed(std::move(sp));
                            if (solo) ref.entries.push_back(id);
                            break;
                        }
                        case ADD_AGAIN: {
                            // only possible for an object we still hold a reference to
                            if (nmine == 0) break;
                            int id = mine[nmine - 1];
                            dd->addObjectsToBeDestroyed(env->ext[id]);
                            if (solo) ref.entries.push_back(id);
                            break;
                        }
                        case DROP: {
                            if (nmine == 0) break;
                            int id = mine[0];
                            for (int i = 1; i < nmine; i++) mine[i - 1] = mine[i];
                            nmine--;
                            g_ext[id] = 0;
                            if (solo) {
                                ref.ext[id] = false;
                                if (ref.count(id) == 0) ref.dead[id] = true;
                            }
                            env->ext[id].reset();
                            break;
                        }
                        case DESTROY0:
                        case DESTROY_0MS:
                        case DESTROY_10MS:
                        case DESTROY_250MS: {
                            g_in_destroy[self()]++;
                            size_t r;
                            if (k == DESTROY0) r = dd->destroyObjects();
                            else r = dd->destroyObjects(k == DESTROY_0MS ? 0ms : k == DESTROY_10MS ? 10ms : 250ms);
                            g_in_destroy[self()]--;
                            if (r == static_cast<size_t>(-1)) {
                                MC_CHECK(last_wait_timed_out(), "bogus-failure", "destroyObjects reported failure although no lock time-out fired");
                                observe(999);
                            } else {
                                observe(300 + r);
                            }
                            if (solo) {
                                size_t e = ref.destroy(cbmode != CB_NONE);
                                MC_CHECK(r == e, "destroy-result", "destroyObjects returned %zu, reference says %zu", r, e);
                            }
                            break;
                        }
                        case SIZE: {
                            size_t r = dd->size();
                            observe(400 + r);
                            if (solo) MC_CHECK(r == ref.entries.size(), "size-result", "size() returned %zu, reference says %zu", r, ref.entries.size());
                            break;
                        }
                    }
                    if (solo) {
                        for (int id = 1; id < MAXID; id++) {
                            MC_CHECK(g_dtor[id] == (ref.dead[id] ? 1 : 0), "destroy-state",
                                     "object %d is %s but the reference says it should be %s", id, g_dtor[id] ? "destroyed" : "alive",
                                     ref.dead[id] ? "destroyed" : "alive");
                            MC_CHECK(g_cb[id] == ref.cb[id], "callback-count", "callback ran %d times for object %d, reference says %d",
                                     g_cb[id], id, ref.cb[id]);
                        }
                    }
                }
                (void)last_new;
            }));
        }
        for (int id : ids) join(id);
    }
    // quiescent accounting (before the container is destroyed): nothing lost or duplicated
    {
        size_t sz = env->dd->size();
        int alive_in_container = 0, destroyed = 0, added = 0;
        for (int id = 1; id < MAXID; id++) {
            if (!g_added[id]) continue;
            added++;
            if (g_dtor[id]) destroyed++;
            else alive_in_container++;
        }
        // every object not yet destroyed is still referenced by the container or an external owner
        MC_CHECK(sz != static_cast<size_t>(-1), "size-failed", "size() failed at quiescence");
        MC_CHECK((int)sz >= 0 && destroyed + alive_in_container == added, "accounting", "objects lost: added %d, destroyed %d, alive %d",
                 added, destroyed, alive_in_container);
    }
    // destroy the container, then drop the remaining external owners
    DD* dd = env->dd;
    env->dd = nullptr;  // destructors must not call back into a container that is being destroyed
    delete dd;
    for (int id = 1; id < MAXID; id++) {
        if (!g_added[id]) continue;
        if (!g_ext[id]) MC_CHECK(g_dtor[id] == 1, "not-destroyed", "object %d has no other owner but survived the destruction of the container", id);
        else MC_CHECK(g_dtor[id] == 0, "destroyed-while-owned", "object %d destroyed while an external owner holds it", id);
    }
    for (int id = 1; id < MAXID; id++) {
        if (g_ext[id]) {
            g_ext[id] = 0;
            env->ext[id].reset();
            MC_CHECK(g_dtor[id] == 1, "not-destroyed", "object %d not destroyed when its last owner let go", id);
        }
    }
    for (int id = 1; id < MAXID; id++) {
        if (!g_added[id]) continue;
        MC_CHECK(g_cb[id] <= 1, "callback-twice", "callback ran %d times for object %d", g_cb[id], id);
        if (cbmode != CB_NONE && g_dtor_in_destroy[id])
            MC_CHECK(g_cb_when_dtor[id] == 1, "callback-missing", "object %d was reaped by destroyObjects without the callback having run first", id);
    }
    delete refp;
    delete env;
    g_env = nullptr;
    MC_CHECK(live_blocks() == base_blocks, "leak", "%zu arena blocks not freed", live_blocks() - base_blocks);
}

void body(const Prog& p)
{
    if (p.single) body_t<gmlc::concurrency::DelayedDestructorSingleThread<Obj>>(p);
    else body_t<gmlc::concurrency::DelayedDestructor<Obj>>(p);
}

void make_items(const Options& o, std::vector<Item>& items)
{
    bool thorough = o.tier == "thorough";
    auto add = [&](bool single, int cb, int re, std::vector<std::vector<int>> th, int Pq, int Pt) {
        Prog p{single, cb, re, th};
        Item it;
        it.name = text(p);
        it.body = [p] { body(p); };
        it.bounds = hx::tier_bounds(o, Pq, Pt);
        items.push_back(it);
    };
    // ---- sequential part: both classes, every op sequence
    {
        int depth = thorough ? 6 : 5;
        auto seqs = hx::sequences(NOPK, depth);
        for (auto& s : seqs) {
            // canonical: must add something; ADD_AGAIN/DROP need an earlier ADD_EXT
            int adds = 0, exts = 0;
            bool ok = true;
            for (int k : s) {
                if (k == ADD || k == ADD_EXT) adds++;
                if (k == ADD_EXT) exts++;
                if ((k == ADD_AGAIN || k == DROP) && exts == 0) ok = false;
                if (k == DROP) exts--;
            }
            if (!ok || adds == 0) continue;
            // timed variants behave alike sequentially: keep one of them unless thorough
            bool timed_dup = false;
            if (!thorough)
                for (int k : s)
                    if (k == DESTROY_0MS || k == DESTROY_10MS) timed_dup = true;
            if (timed_dup) continue;
            for (int single = 0; single < 2; single++) add(single, CB_COUNT, RE_NONE, {s}, 0, 0);
            if (s.size() <= 3) {
                for (int single = 0; single < 2; single++) {
                    add(single, CB_NONE, RE_NONE, {s}, 0, 0);
                    for (int re = RE_SIZE; re <= RE_DESTROY; re++) {
                        add(single, CB_REENTER, re, {s}, 0, 0);
                        add(single, CB_NONE, re, {s}, 0, 0);  // no callback installed, destructor re-enters
                    }
                }
            }
        }
    }
    // ---- scale: many objects reapable in one pass (batching, thresholds), both classes, with and without a callback
    for (int n : {9, 17, 33}) {
        if (!thorough && n == 33) continue;
        std::vector<int> t(n, ADD);
        t.push_back(ADD_EXT);  // one object that must survive the passes
        t.push_back(DESTROY0);
        t.push_back(SIZE);
        t.push_back(DESTROY0);
        t.push_back(DROP);
        t.push_back(DESTROY0);
        for (int single = 0; single < 2; single++)
            for (int cb : {CB_COUNT, CB_NONE}) add(single, cb, RE_NONE, {t}, 0, 0);
    }
    {
        std::vector<int> t(9, ADD);
        t.push_back(DESTROY0);
        add(false, CB_COUNT, RE_NONE, {t, {DESTROY0, DESTROY0}}, 1, 2);
    }
    // ---- concurrent part (locked class)
    std::vector<std::vector<int>> roles = {{ADD}, {ADD_EXT, DROP}, {ADD, ADD}, {DESTROY0}, {DESTROY0, DESTROY0}, {SIZE}, {DESTROY_10MS},
                                           {ADD_EXT, ADD_AGAIN}, {ADD, DESTROY0}, {ADD_EXT, DESTROY0, DROP}, {DESTROY_250MS}, {SIZE, ADD}};
    for (int cb : {CB_COUNT, CB_REENTER, CB_NONE})
        for (int re : {RE_NONE, RE_SIZE, RE_ADD, RE_DESTROY}) {
            if (!thorough && cb == CB_REENTER && re != RE_NONE && re != RE_SIZE) continue;
            if (!thorough && cb == CB_NONE && re == RE_NONE) continue;
            hx::multisets((int)roles.size(), 2, [&](const std::vector<int>& idx) {
                bool has_add = false, has_destroy = false;
                for (int i : idx)
                    for (int k : roles[i]) {
                        if (k <= ADD_AGAIN) has_add = true;
                        if (k >= DESTROY0 && k <= DESTROY_250MS) has_destroy = true;
                    }
                if (!has_add) return;
                if (!thorough && !has_destroy && re != RE_NONE) return;
                add(false, cb, re, {roles[idx[0]], roles[idx[1]]}, 3, 4);
            });
        }
    // three threads: adder, destroyer, and a third role
    for (int re : {RE_NONE, RE_SIZE, RE_DESTROY})
        for (size_t r = 0; r < roles.size(); r++) {
            if (!thorough && (r == 10 || r == 7 || r == 2)) continue;
            add(false, CB_COUNT, re, {{ADD_EXT, DROP}, {DESTROY0}, roles[r]}, 3, 3);
            if (thorough) add(false, CB_REENTER, re, {{ADD, ADD}, {DESTROY0, DESTROY0}, roles[r]}, 2, 2);
        }
}
}  // namespace

int main(int argc, char** argv)
{
    return run_main(argc, argv, "C16", "C16", make_items);
}
