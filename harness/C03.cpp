// C03: lr_guarded readers see only complete, current states
// (with -DMODE_C14: C14 read-side non-blocking oracles on the same programs)
#define HX_MAIN
#include <chrono>
#include <optional>
#include "common.h"
#include "gmlc/libguarded/lr_guarded.hpp"

using namespace mcrt;
using hx::Pair;
using LR_M = gmlc::libguarded::lr_guarded<Pair>;                     // default writer mutex
using LR_T = gmlc::libguarded::lr_guarded<Pair, std::timed_mutex>;  // the timed reader forms are used with a timed mutex

namespace {
int g_mod_invoked, g_mod_returned;

struct Reader {
    int acq;  // number of acquisitions
    int form;  // 0 lock_shared 1 try_lock_shared 2 try_lock_shared_for 3 try_lock_shared_until
    bool hold;  // keep the previous handle alive across the next acquisition
};
struct Prog {
    std::vector<int> writers;  // modifies per writer
    std::vector<Reader> readers;
    bool noncommuting;  // writer i applies x->2x+1 (i even) or x->3x (i odd)
    bool unwinding = false;  // writers call modify() from a destructor while an exception propagates
};
struct Unwinding {};
template <class F>
struct RunInDtor {
    F f;
    ~RunInDtor() { f(); }
};
template <class F>
void maybe_during_unwinding(bool unwinding, F f)
{
    if (!unwinding) return f();
    try {
        RunInDtor<F> g{f};
        throw Unwinding();
    }
    catch (const Unwinding&) {
    }
}
const char* formn[] = {"lock_shared", "try_lock_shared", "try_lock_shared_for", "try_lock_shared_until"};

std::string text(const Prog& p)
{
    bool timed = false;
    for (auto& r : p.readers)
        if (r.form >= 2) timed = true;
    std::string s = std::string(timed ? "lr_guarded<Pair,timed_mutex>" : "lr_guarded<Pair>") + (p.noncommuting ? " [non-commuting functors]" : "") +
        (p.unwinding ? " [modify called from a destructor during stack unwinding]" : "");
    for (int m : p.writers) s += " | writer: modify x" + std::to_string(m);
    for (auto& r : p.readers)
        s += std::string(" | reader: ") + formn[r.form] + " x" + std::to_string(r.acq) + (r.hold ? " (overlapping handles)" : "");
    return s;
}

template<class LR>
typename LR::shared_handle acquire(LR* lr, int form)
{
    using namespace std::chrono_literals;
#ifdef MODE_C14
    noblock_begin("lr_guarded read acquisition", 40);
#endif
    auto take = [&]() -> typename LR::shared_handle {
        if constexpr (std::is_same_v<LR, LR_T>) {
            return form == 0 ? lr->lock_shared() :
                form == 1    ? lr->try_lock_shared() :
                form == 2    ? lr->try_lock_shared_for(1ms) :
                               lr->try_lock_shared_until(std::chrono::steady_clock::now() + 1ms);
        } else {
            // programs that use a timed form run on the timed-mutex instantiation
            return form == 0 ? lr->lock_shared() : lr->try_lock_shared();
        }
    };
    typename LR::shared_handle h = take();
#ifdef MODE_C14
    noblock_end();
#endif
    return h;
}

template<class LR>
void body_t(const Prog& p)
{
    g_mod_invoked = g_mod_returned = 0;
    hx::win_reset();
    LR* lr = new LR(0);
    std::vector<int> ids;
    int total_mods = 0;
    int wi = 0;
    for (int m : p.writers) {
        total_mods += m;
        int kind = p.noncommuting ? (wi % 2) + 1 : 0;
        wi++;
        ids.push_back(spawn([lr, m, kind, unw = p.unwinding] {
            for (int i = 0; i < m; i++) maybe_during_unwinding(unw, [&] {
                stamp();
                ++g_mod_invoked;
                lr->modify([kind](Pair& x) {
                    hx::WriteWin w(&x, "modify functor");
                    if (kind == 0) {
                        ++x.a;
                        point();
                        ++x.b;
                    } else if (kind == 1) {
                        x.a = 2 * x.a + 1;
                        point();
                        x.b = 2 * x.b + 1;
                    } else {
                        x.a = 3 * x.a;
                        point();
                        x.b = 3 * x.b;
                    }
                });
                stamp();
                ++g_mod_returned;
            });
        }));
    }
    for (auto& r : p.readers) {
        ids.push_back(spawn([lr, r, nc = p.noncommuting] {
            int last = -1;
            std::optional<typename LR::shared_handle> prev;
            for (int i = 0; i < r.acq; i++) {
                stamp();
                int lo = g_mod_returned;
                typename LR::shared_handle h = acquire(lr, r.form);
                stamp();
                int hi = g_mod_invoked;
                MC_CHECK(bool(h), "null-handle", "lr_guarded %s returned a null handle", formn[r.form]);
                int v = hx::read_pair(*h, "reader under shared handle");
                point();
                int v2 = hx::read_pair(*h, "reader under shared handle (re-read)");
                MC_CHECK(v == v2, "changed-under-handle", "value changed from %d to %d while the shared handle was held", v, v2);
                if (!nc) {
                    MC_CHECK(v >= lo, "stale-read", "lock_shared started after %d modify() calls had returned but observed %d", lo, v);
                    MC_CHECK(v <= hi, "future-read", "observed %d modifications but only %d modify() calls had been invoked", v, hi);
                    MC_CHECK(v >= last, "non-monotone", "reader observed %d after having observed %d", v, last);
                } else {
                    MC_CHECK(v == 0 || v == 1 || v == 3, "bad-state", "observed value %d which no sequential order of the functors produces", v);
                }
                last = v;
                observe((uint64_t)v + 10 * i);
                if (r.hold) {
                    // keep this handle while taking the next one
                    prev.reset();
                    prev.emplace(std::move(h));
                    if (bool(*prev)) {
                        int v3 = hx::read_pair(**prev, "reader under older handle");
                        MC_CHECK(v3 == v, "changed-under-handle", "value under the older handle changed from %d to %d", v, v3);
                    }
                }
            }
        }));
    }
    for (int id : ids) join(id);
    // final state: both copies equal, consistent and reflect every modification
    int fin = hx::read_pair(*lr->lock_shared(), "final read");
    if (!p.noncommuting) {
        MC_CHECK(fin == total_mods, "lost-update", "final value %d after %d modifications", fin, total_mods);
    } else if (p.writers.size() == 2) {
        MC_CHECK(fin == 1 || fin == 3, "bad-final", "final value %d is not one of the sequential compositions (1, 3)", fin);
    }
    lr->modify([](Pair&) {});
    int fin2 = hx::read_pair(*lr->lock_shared(), "final read of the other copy");
    MC_CHECK(fin == fin2, "copies-differ", "the two internal copies disagree (%d vs %d)", fin, fin2);
    delete lr;
}

// A reader keeps its handle until the writer is inside modify() (first functor application done,
// i.e. it is about to flip and drain), and only then releases: the writer is delayed only by the
// handle that is still held and must complete once it is released.
bool g_functor_ran;
template<class LR>
void body_held_t(int readers, int mods)
{
    g_functor_ran = false;
    hx::win_reset();
    LR* lr = new LR(0);
    {
        Event in[2];
        std::vector<int> ids;
        for (int r = 0; r < readers; r++)
            ids.push_back(spawn([lr, r, &in] {
                typename LR::shared_handle h = acquire(lr, r % 4);
                int v = hx::read_pair(*h, "reader under shared handle");
                in[r].set();
                await([] { return g_functor_ran; });
                point();
                int v2 = hx::read_pair(*h, "reader under shared handle (after the writer started)");
                MC_CHECK(v == v2, "changed-under-handle", "value changed from %d to %d while the shared handle was held", v, v2);
                // handle released here: only now may the writer touch this copy
            }));
        ids.push_back(spawn([lr, readers, mods, &in] {
            for (int r = 0; r < readers; r++) in[r].wait();
            for (int m = 0; m < mods; m++)
                lr->modify([](Pair& x) {
                    hx::WriteWin w(&x, "modify functor");
                    g_functor_ran = true;
                    ++x.a;
                    point();
                    ++x.b;
                });
        }));
        for (int id : ids) join(id);  // deadlock / livelock detector: the writer must finish
    }
    int fin = hx::read_pair(*lr->lock_shared(), "final read");
    MC_CHECK(fin == mods, "lost-update", "final value %d after %d modifications", fin, mods);
    delete lr;
}

// Scale: one reader keeps n shared handles at once (a handle is counted, not a thread) while a writer modifies. The
// writer must wait for all of them, however many there are (counter width, thresholds).
template<class LR>
void body_many_t(int n)
{
    constexpr int CAP = 65536 + 8;
    static typename std::aligned_storage<sizeof(std::optional<typename LR::shared_handle>),
                                         alignof(std::optional<typename LR::shared_handle>)>::type raw[CAP];
    using Slot = std::optional<typename LR::shared_handle>;
    g_functor_ran = false;
    hx::win_reset();
    LR* lr = new LR(0);
    {
        // an abandoned execution leaves stale slots behind: re-create them without running destructors
        for (int i = 0; i < n; i++) new (&raw[i]) Slot();
        Slot* hs = reinterpret_cast<Slot*>(raw);
        Event in;
        std::vector<int> ids;
        ids.push_back(spawn([lr, n, hs, &in] {
            for (int i = 0; i < n; i++) {
                if (i & 1) hs[i].emplace(lr->try_lock_shared());
                else hs[i].emplace(lr->lock_shared());
                MC_CHECK(bool(*hs[i]), "null-handle", "shared acquisition %d returned a null handle", i);
            }
            int v = hx::read_pair(**hs[0], "reader under its first handle");
            in.set();
            await([] { return g_functor_ran; });
            point();
            int v2 = hx::read_pair(**hs[n - 1], "reader under its last handle (after the writer started)");
            MC_CHECK(v == v2, "changed-under-handle", "value changed from %d to %d while %d shared handles were held", v, v2, n);
            for (int i = 0; i < n; i++) hs[i].reset();
        }));
        ids.push_back(spawn([lr, &in] {
            in.wait();
            lr->modify([](Pair& x) {
                hx::WriteWin w(&x, "modify functor");
                g_functor_ran = true;
                ++x.a;
                point();
                ++x.b;
            });
        }));
        for (int id : ids) join(id);
    }
    int fin = hx::read_pair(*lr->lock_shared(), "final read");
    MC_CHECK(fin == 1, "lost-update", "final value %d after 1 modification", fin);
    delete lr;
}

// Life-cycle edge: the wrapper is constructed from an rvalue of a payload whose move empties the source; every later
// state must derive from that initial value, whichever internal copy readers are directed to.
void body_ctor_rvalue()
{
    using LRM = gmlc::libguarded::lr_guarded<hx::MPair>;
    LRM* lr = new LRM(hx::MPair(5));
    {
        std::vector<int> ids;
        ids.push_back(spawn([lr] {
            for (int m = 0; m < 3; m++)
                lr->modify([](hx::MPair& x) {
                    ++x.a;
                    point();
                    ++x.b;
                });
        }));
        ids.push_back(spawn([lr] {
            int last = 5;
            for (int i = 0; i < 3; i++) {
                auto h = lr->lock_shared();
                int a = h->a;
                point();
                int b = h->b;
                MC_CHECK(a == b && a >= last && a <= 8, "bad-state", "reader observed (%d,%d) on a wrapper constructed from MPair(5) and modified by +1 steps", a, b);
                last = a;
            }
        }));
        for (int id : ids) join(id);
    }
    for (int k = 0; k < 2; k++) {
        auto h = lr->lock_shared();
        MC_CHECK(h->a == 8 + k && h->b == 8 + k, "bad-state", "after %d modifications of MPair(5) the value is (%d,%d)", 3 + k, h->a, h->b);
        h.reset();
        lr->modify([](hx::MPair& x) {
            ++x.a;
            ++x.b;
        });
    }
    delete lr;
}

// Writers whose functor throws (half-way through its update) on its first or on its second
// application: the modification must still be all-or-nothing for readers holding / taking handles.
struct Boom {};
template<class LR>
void body_throwing_t(int throw_at, int readers, int acq)
{
    hx::win_reset();
    LR* lr = new LR(0);
    int effect = 0;
    {
        std::vector<int> ids;
        ids.push_back(spawn([lr, throw_at, &effect] {
            for (int m = 0; m < 2; m++) {
                int calls = 0;
                bool first_done = false;
                try {
                    lr->modify([&](Pair& x) {
                        ++calls;
                        hx::WriteWin w(&x, "modify functor");
                        ++x.a;
                        point();
                        if (m == 0 && calls == throw_at) throw Boom();
                        ++x.b;
                        if (calls == 1) first_done = true;
                    });
                }
                catch (const Boom&) {
                }
                if (first_done) ++effect;
                stamp();
            }
        }));
        for (int r = 0; r < readers; r++)
            ids.push_back(spawn([lr, acq, r] {
                int last = -1;
                for (int i = 0; i < acq; i++) {
                    typename LR::shared_handle h = acquire(lr, (r + i) % 4);
                    int v = hx::read_pair(*h, "reader under shared handle");
                    point();
                    int v2 = hx::read_pair(*h, "reader under shared handle (re-read)");
                    MC_CHECK(v == v2, "changed-under-handle", "value changed from %d to %d while the shared handle was held", v, v2);
                    MC_CHECK(v >= last, "non-monotone", "reader observed %d after having observed %d", v, last);
                    last = v;
                    observe((uint64_t)v);
                }
            }));
        for (int id : ids) join(id);
    }
    int fin = hx::read_pair(*lr->lock_shared(), "final read");
    MC_CHECK(fin == effect, "not-atomic", "final value %d but %d modifications took effect", fin, effect);
    lr->modify([](Pair&) {});
    int fin2 = hx::read_pair(*lr->lock_shared(), "final read of the other copy");
    MC_CHECK(fin == fin2, "copies-differ", "the two internal copies disagree (%d vs %d)", fin, fin2);
    delete lr;
}

#ifdef MODE_C14
// "Two counters let a writer ignore readers that arrive after its flip": reader 1 holds a handle from
// before the modification and releases once the writer is inside modify(); reader 2 takes a handle only
// after the writer has switched the counting side (observed on the implementation's flag) and keeps it
// until the writer has FINISHED.  The writer may only be delayed by reader 1.
// The late-reader program needs to know when the writer has switched the side readers count themselves on. It reads
// the implementation's flag for that if a member of that name exists; on an implementation without it the program
// degenerates to nothing (never a build failure or an alarm).
template<class L, class = void>
struct has_counting_flag: std::false_type {};
template<class L>
struct has_counting_flag<L, std::void_t<decltype(std::declval<L&>().m_countingLeft.load())>>: std::true_type {};
template<class L>
bool counting_side(L* lr)
{
    if constexpr (has_counting_flag<L>::value) return lr->m_countingLeft.load();
    else return false;
}

template<class LR>
void body_late_reader_t(int prior)
{
    if (!has_counting_flag<LR>::value) return;
    hx::win_reset();
    LR* lr = new LR(0);
    // earlier, completed modifications: the scenario must work in every generation, not only on a fresh object
    for (int k = 0; k < prior; k++)
        lr->modify([](Pair& x) {
            hx::WriteWin w(&x, "earlier modify functor");
            ++x.a;
            ++x.b;
        });
    g_functor_ran = false;
    {
        Event r1_in, writer_done;
        bool counting0 = counting_side(lr);
        std::vector<int> ids;
        ids.push_back(spawn([lr, &r1_in] {
            typename LR::shared_handle h = lr->lock_shared();
            (void)hx::read_pair(*h, "reader 1");
            r1_in.set();
            await([] { return g_functor_ran; });
            point();
        }));
        ids.push_back(spawn([lr, &r1_in, &writer_done] {
            r1_in.wait();
            lr->modify([](Pair& x) {
                hx::WriteWin w(&x, "modify functor");
                g_functor_ran = true;
                ++x.a;
                point();
                ++x.b;
            });
            writer_done.set();
        }));
        ids.push_back(spawn([lr, counting0, prior, &writer_done] {
            await([lr, counting0] { return counting_side(lr) != counting0; });
            typename LR::shared_handle h = lr->lock_shared();
            int v = hx::read_pair(*h, "reader 2 (arrived after the writer switched sides)");
            MC_CHECK(v == prior + 1, "stale-read", "a reader arriving after the flip observed %d", v);
            writer_done.wait();  // deadlock detector: the writer must not wait for this handle
        }));
        for (int id : ids) join(id);
    }
    delete lr;
}
#endif

void body(const Prog& p)
{
    bool timed = false;
    for (auto& r : p.readers)
        if (r.form >= 2) timed = true;
    if (timed) body_t<LR_T>(p);
    else body_t<LR_M>(p);
}
void body_held(int readers, int mods) { body_held_t<LR_T>(readers, mods); }  // uses all four reader forms
void body_many(int n) { body_many_t<LR_M>(n); }
void body_throwing(int throw_at, int readers, int acq) { body_throwing_t<LR_T>(throw_at, readers, acq); }
#ifdef MODE_C14
void body_late_reader(int prior) { body_late_reader_t<LR_M>(prior); }
#endif

void make_items(const Options& o, std::vector<Item>& items)
{
    bool thorough = o.tier == "thorough";
    int nform = 0;
#ifdef MODE_C14
    for (int prior = 0; prior <= 3; prior++) {
        Item it;
        it.name = "lr_guarded<Pair> after " + std::to_string(prior) + " completed modifications | reader 1 holds from before and releases once the writer is inside modify | writer: modify x1 | reader 2 "
                  "arrives after the writer switched the counting side and holds until the writer has finished";
        it.body = [prior] { body_late_reader(prior); };
        it.bounds = hx::tier_bounds(o, 3, 6);
        items.push_back(it);
    }
#endif
    {
        Item it;
        it.name = "lr_guarded<MPair> constructed from an rvalue (move empties the source) | writer: modify x3 | reader: lock_shared x3";
        it.body = [] { body_ctor_rvalue(); };
        it.bounds = hx::tier_bounds(o, 2, 4);
        items.push_back(it);
    }
    for (int n : {256, 65536}) {
        if (n > 256 && !thorough) continue;
        Item it;
        it.name = "lr_guarded<Pair> | one reader keeps " + std::to_string(n) + " shared handles at once (lock_shared / try_lock_shared) | writer: modify x1";
        it.body = [n] { body_many(n); };
        it.bounds = hx::tier_bounds(o, n > 256 ? 0 : 1, n > 256 ? 0 : 1);
        it.bounds.max_steps = n > 256 ? 1500000 : 8000;
        items.push_back(it);
    }
    for (int throw_at = 1; throw_at <= 2; throw_at++)
        for (int readers = 1; readers <= 2; readers++) {
            Item it;
            it.name = "lr_guarded<Pair> | writer: modify x2, the functor of the first throws half-way on its " +
                std::string(throw_at == 1 ? "first" : "second") + " application | " + std::to_string(readers) + " reader(s) x2";
            it.body = [throw_at, readers] { body_throwing(throw_at, readers, 2); };
            it.bounds = hx::tier_bounds(o, 3, readers == 1 ? 5 : 3);
            items.push_back(it);
        }
    for (int readers = 1; readers <= 2; readers++)
        for (int mods = 1; mods <= 2; mods++) {
            Item it;
            it.name = "lr_guarded<Pair> | " + std::to_string(readers) + " reader(s) hold their handle until the writer is inside modify | writer: modify x" +
                std::to_string(mods);
            it.body = [readers, mods] { body_held(readers, mods); };
            it.bounds = hx::tier_bounds(o, 3, readers == 1 ? 5 : 3);
            items.push_back(it);
        }
    auto add = [&](std::vector<int> ws, std::vector<Reader> rs, bool nc, int Pq, int Pt) {
        Prog p{ws, rs, nc};
        Item it;
        it.name = text(p);
        it.body = [p] { body(p); };
        it.bounds = hx::tier_bounds(o, Pq, Pt);
        items.push_back(it);
    };
    {
        Prog p{{2}, {Reader{2, 0, false}}, false, true};
        Item it;
        it.name = text(p);
        it.body = [p] { body(p); };
        it.bounds = hx::tier_bounds(o, 3, 5);
        items.push_back(it);
    }
    auto form = [&]() { return thorough ? (nform++ % 4) : (nform++ % 4); };
    // 1 writer, 1 reader
    for (int m = 1; m <= 2; m++)
        for (int r = 1; r <= 3; r++)
            for (int hold = 0; hold < 2; hold++) {
                if (hold && r < 2) continue;
                add({m}, {Reader{r, form(), (bool)hold}}, false, 3, 5);
            }
    // all four forms explicitly on the basic program
    for (int f = 0; f < 4; f++) add({1}, {Reader{2, f, false}}, false, 3, 5);
    // 1 writer, 2 readers
    for (int r1 = 1; r1 <= 2; r1++)
        for (int r2 = r1; r2 <= 2; r2++) add({1}, {Reader{r1, form(), false}, Reader{r2, form(), r2 == 2}}, false, 3, 3);
    // 2 writers, 1 reader
    for (int r = 1; r <= 2; r++) add({1, 1}, {Reader{r, form(), false}}, false, 3, 3);
    add({1, 1}, {Reader{2, 0, true}}, false, 3, 3);
    add({1, 1}, {Reader{2, 0, false}}, true, 3, 3);
    add({1, 1}, {Reader{1, 0, false}}, true, 3, 4);
    // 2 writers, 2 readers
    add({1, 1}, {Reader{1, 0, false}, Reader{1, 1, false}}, false, 3, 3);
    if (thorough) {
        // systematic: every writer multiset x every reader multiset (forms lock_shared / try_lock_shared_for)
        std::vector<std::vector<int>> wsets = {{1}, {2}, {1, 1}, {2, 1}, {2, 2}, {1, 1, 1}};
        std::vector<Reader> rk;
        for (int acq = 1; acq <= 3; acq++)
            for (int hold = 0; hold < 2; hold++)
                for (int f : {0, 2}) {
                    if (hold && acq < 2) continue;
                    rk.push_back(Reader{acq, f, (bool)hold});
                }
        for (auto& ws : wsets) {
            for (size_t a = 0; a < rk.size(); a++) {
                add(ws, {rk[a]}, false, 3, 6);
                if (ws.size() == 2 && ws[0] == 1 && ws[1] == 1) add(ws, {rk[a]}, true, 3, 6);
                for (size_t b = a; b < rk.size(); b++) {
                    if (ws.size() > 2 || rk[a].acq + rk[b].acq > 4) continue;
                    add(ws, {rk[a], rk[b]}, false, 2, 6);
                }
            }
        }
        add({1, 1}, {Reader{2, 0, false}, Reader{2, 0, false}}, false, 3, 3);
        add({2, 1}, {Reader{2, 0, false}}, false, 3, 3);
        add({2, 2}, {Reader{2, 0, true}}, false, 3, 3);
        add({1, 1}, {Reader{2, 0, false}, Reader{1, 0, false}}, true, 3, 3);
        add({2}, {Reader{3, 0, true}, Reader{2, 2, false}}, false, 3, 3);
        add({1, 1, 1}, {Reader{2, 0, false}}, false, 3, 3);
    }
}
}  // namespace

int main(int argc, char** argv)
{
#ifdef MODE_C14
    return run_main(argc, argv, "C14", "C14_lr", make_items);
#else
    return run_main(argc, argv, "C03", "C03", make_items);
#endif
}
