// C19: a trip line is one-way, per line, and publishes what preceded it
#define HX_MAIN
#include <optional>
#include <stdexcept>
#include "common.h"
#include "gmlc/concurrency/TripWire.hpp"

DECLARE_TRIPLINE()
DECLARE_INDEXED_TRIPLINES(2)

using namespace mcrt;
using namespace gmlc::concurrency;

namespace {
constexpr int NL = 5;  // L0, L1 explicit; D declared; I0, I1 indexed
const char* linen[NL] = {"L0", "L1", "declared", "indexed[0]", "indexed[1]"};
enum OpK : uint8_t { CREATE, MOVE_CTOR, MOVE_ASSIGN, DESTROY, BAD_INDEX, NOPK };
struct Op {
    uint8_t k;
    int8_t a, b;  // slot, line / slot, slot
};
std::string optext(const Op& o)
{
    switch (o.k) {
        case CREATE: return "T" + std::to_string(o.a) + "=trigger(" + linen[o.b] + ")";
        case MOVE_CTOR: return "T" + std::to_string(o.b) + "(move T" + std::to_string(o.a) + ")";
        case MOVE_ASSIGN: return "T" + std::to_string(o.b) + "=move(T" + std::to_string(o.a) + ")";
        case DESTROY: return "destroy T" + std::to_string(o.a);
        default: return "index out of range";
    }
}

struct World {
    TriplineType lines[2];
    std::optional<TripWireTrigger> slot[2];
    int attached[2] = {-1, -1};  // line the trigger in the slot is attached to; -1 = none / moved-from
    bool tripped[NL] = {false, false, false, false, false};
    bool unspecified[NL] = {false, false, false, false, false};
};

TripWireDetector detector_for(World& w, int line)
{
    switch (line) {
        case 0: return TripWireDetector(w.lines[0]);
        case 1: return TripWireDetector(w.lines[1]);
        case 2: return TripWireDetector();
        case 3: return TripWireDetector(0u);
        default: return TripWireDetector(1u);
    }
}
void check_lines(World& w, const char* after)
{
    for (int l = 0; l < NL; l++) {
        if (w.unspecified[l]) continue;
        bool t = detector_for(w, l).isTripped();
        MC_CHECK(t == w.tripped[l], "trip-state", "after %s: detector on line %s reports %s, reference says %s", after, linen[l],
                 t ? "tripped" : "not tripped", w.tripped[l] ? "tripped" : "not tripped");
    }
}

// The declared / indexed lines are process-wide statics: restore them (value and
// reference count, which an abandoned execution may have left raised) before each execution.
void reset_static(TriplineType l)
{
    l._M_refcount._M_pi->_M_use_count = 2;  // the static owner + this temporary
    *reinterpret_cast<bool*>(l.get()) = false;
}
void reset_statics()
{
    untracked_begin();
    reset_static(TripWire::getLine());
    reset_static(TripWire::getIndexedLine(0));
    reset_static(TripWire::getIndexedLine(1));
    untracked_end();
}

void apply(World& w, const Op& o)
{
    switch (o.k) {
        case CREATE:
            if (w.slot[o.a]) return;
            switch (o.b) {
                case 0: w.slot[o.a].emplace(w.lines[0]); break;
                case 1: w.slot[o.a].emplace(w.lines[1]); break;
                case 2: w.slot[o.a].emplace(); break;
                case 3: w.slot[o.a].emplace(0u); break;
                default: w.slot[o.a].emplace(1u); break;
            }
            w.attached[o.a] = o.b;
            break;
        case MOVE_CTOR:
            if (!w.slot[o.a] || w.slot[o.b]) return;
            w.slot[o.b].emplace(std::move(*w.slot[o.a]));
            w.attached[o.b] = w.attached[o.a];
            w.attached[o.a] = -1;
            break;
        case MOVE_ASSIGN:
            if (!w.slot[o.a] || !w.slot[o.b]) return;
            // what happens to the line the target was attached to is not specified
            if (w.attached[o.b] >= 0 && w.attached[o.b] != w.attached[o.a]) w.unspecified[w.attached[o.b]] = true;
            *w.slot[o.b] = std::move(*w.slot[o.a]);
            w.attached[o.b] = w.attached[o.a];
            w.attached[o.a] = -1;
            break;
        case DESTROY:
            if (!w.slot[o.a]) return;
            if (w.attached[o.a] >= 0) w.tripped[w.attached[o.a]] = true;
            w.attached[o.a] = -1;
            w.slot[o.a].reset();
            break;
        case BAD_INDEX: {
            bool threw = false;
            try {
                TripWireDetector d(2u);
                (void)d;
            }
            catch (const std::out_of_range&) {
                threw = true;
            }
            MC_CHECK(threw, "bad-index", "TripWireDetector(2) with 2 indexed lines did not throw std::out_of_range");
            threw = false;
            try {
                TripWireTrigger t(2u);
                (void)t;
            }
            catch (const std::out_of_range&) {
                threw = true;
            }
            MC_CHECK(threw, "bad-index", "TripWireTrigger(2) with 2 indexed lines did not throw std::out_of_range");
            break;
        }
    }
}

struct Prog {
    std::vector<Op> seq;  // sequential part
    int conc = 0;  // concurrent variant (0 = none)
    int pollers = 1, polls = 2;
};
std::string text(const Prog& p)
{
    if (p.conc) {
        static const char* v[] = {"", "trigger destroyed by its thread", "trigger move-constructed, moved-from destroyed first",
                                  "trigger created by main, moved into the triggering thread", "trigger on an indexed line, detector on the other index polls too",
                                  "trigger destroyed by its thread, all pollers share ONE detector object"};
        return std::string("TripWire concurrent: ") + v[p.conc] + " | " + std::to_string(p.pollers) + " poller(s) x " +
            std::to_string(p.polls) + " isTripped(), data read on first true";
    }
    std::string s = "TripWire sequence:";
    for (auto& o : p.seq) s += " " + optext(o) + ";";
    return s;
}

void body_seq(const Prog& p)
{
    size_t base_blocks = live_blocks();
    reset_statics();
    World* w = new World();
    w->lines[0] = make_tripline();
    w->lines[1] = make_tripline();
    check_lines(*w, "construction");
    for (auto& o : p.seq) {
        apply(*w, o);
        std::string t = optext(o);
        check_lines(*w, t.c_str());
    }
    // detectors created before the trip see it too, and it never goes back
    apply(*w, Op{DESTROY, 0, 0});
    apply(*w, Op{DESTROY, 1, 0});
    check_lines(*w, "final destruction");
    delete w;
    MC_CHECK(live_blocks() == base_blocks, "leak", "%zu arena blocks not freed", live_blocks() - base_blocks);
}

struct Shared {
    TriplineType line, other;
    int data = 0;
    int data2 = 0;
    std::optional<TripWireTrigger> handoff;
    std::optional<TripWireDetector> shared_det;  // one detector object polled by several threads (variant 5)
};

void body_conc(const Prog& p)
{
    size_t base_blocks = live_blocks();
    reset_statics();
    Shared* sh = new Shared();
    sh->line = make_tripline();
    sh->other = make_tripline();
    const int variant = p.conc;
    if (variant == 3) sh->handoff.emplace(sh->line);
    if (variant == 5) sh->shared_det.emplace(sh->line);
    {
        std::vector<int> ids;
        ids.push_back(spawn([sh, variant] {
            if (variant == 1 || variant == 5) {
                TripWireTrigger t(sh->line);
                sh->data = 41;
                point();
                sh->data2 = 42;
            } else if (variant == 2) {
                std::optional<TripWireTrigger> a;
                a.emplace(sh->line);
                {
                    TripWireTrigger b(std::move(*a));
                    sh->data = 41;
                    a.reset();  // destroying the moved-from object must not trip anything
                    bool early = TripWireDetector(sh->line).isTripped();
                    MC_CHECK(!early, "moved-from-trips", "destroying a moved-from trigger tripped the line");
                    sh->data2 = 42;
                }
            } else if (variant == 3) {
                TripWireTrigger mine(std::move(*sh->handoff));
                sh->data = 41;
                sh->data2 = 42;
            } else {
                TripWireTrigger t(0u);
                sh->data = 41;
                sh->data2 = 42;
            }
        }));
        for (int i = 0; i < p.pollers; i++)
            ids.push_back(spawn([sh, variant, polls = p.polls] {
                TripWireDetector own = variant == 4 ? TripWireDetector(0u) : TripWireDetector(sh->line);
                const TripWireDetector& det = variant == 5 ? *sh->shared_det : own;
                TripWireDetector odet = variant == 4 ? TripWireDetector(1u) : TripWireDetector(sh->other);
                bool seen = false;
                for (int k = 0; k < polls; k++) {
                    bool t = det.isTripped();
                    MC_CHECK(!(seen && !t), "not-monotone", "detector reported tripped and later not tripped");
                    if (t && !seen) {
                        // everything written before the trigger died must be visible (and race free)
                        int d1 = sh->data, d2 = sh->data2;
                        MC_CHECK(d1 == 41 && d2 == 42, "unpublished", "line observed as tripped but the data written before is not visible (%d,%d)", d1, d2);
                        cover(1);
                    }
                    seen = seen || t;
                    MC_CHECK(!odet.isTripped(), "cross-trip", "a detector on a different line reports tripped");
                    observe(t);
                }
            }));
        for (int id : ids) join(id);
    }
    {
        TripWireDetector det = variant == 4 ? TripWireDetector(0u) : TripWireDetector(sh->line);
        MC_CHECK(det.isTripped(), "not-tripped", "trigger destroyed (and joined) but a detector still reports not tripped");
        MC_CHECK(sh->data == 41 && sh->data2 == 42, "unpublished", "data not visible after join");
    }
    if (variant == 3) sh->handoff.reset();  // moved-from object in the hand-off slot
    sh->shared_det.reset();
    delete sh;
    MC_CHECK(live_blocks() == base_blocks, "leak", "%zu arena blocks not freed", live_blocks() - base_blocks);
}

void make_items(const Options& o, std::vector<Item>& items)
{
    bool thorough = o.tier == "thorough";
    std::vector<Op> al;
    for (int s = 0; s < 2; s++)
        for (int l = 0; l < NL; l++) al.push_back(Op{CREATE, (int8_t)s, (int8_t)l});
    al.push_back(Op{MOVE_CTOR, 0, 1});
    al.push_back(Op{MOVE_CTOR, 1, 0});
    al.push_back(Op{MOVE_ASSIGN, 0, 1});
    al.push_back(Op{MOVE_ASSIGN, 1, 0});
    al.push_back(Op{DESTROY, 0, 0});
    al.push_back(Op{DESTROY, 1, 0});
    al.push_back(Op{BAD_INDEX, 0, 0});
    int depth = thorough ? 5 : 4;
    auto seqs = hx::sequences((int)al.size(), depth);
    for (auto& s : seqs) {
        // skip sequences whose first op is not a creation (everything else is a no-op on empty slots)
        if (al[s[0]].k != CREATE && al[s[0]].k != BAD_INDEX) continue;
        if (thorough && s.size() == 5 && al[s[4]].k == CREATE) continue;  // a trailing creation adds nothing
        Prog p;
        for (int i : s) p.seq.push_back(al[i]);
        Item it;
        it.name = text(p);
        it.body = [p] { body_seq(p); };
        it.bounds = hx::tier_bounds(o, 0, 0);
        items.push_back(it);
    }
    for (int v = 1; v <= 5; v++)
        for (int pollers = (v == 5 ? 2 : 1); pollers <= 2; pollers++)
            for (int polls = 1; polls <= 3; polls++) {
                if (!thorough && pollers == 2 && polls == 3) continue;
                Prog p;
                p.conc = v;
                p.pollers = pollers;
                p.polls = polls;
                Item it;
                it.name = text(p);
                it.body = [p] { body_conc(p); };
                it.bounds = hx::tier_bounds(o, 4, 5);
                it.bounds.R = 2;
                items.push_back(it);
            }
}

void warmup()
{
    // create the process-wide static lines outside any execution
    (void)TripWireDetector();
    (void)TripWireDetector(0u);
}
}  // namespace

int main(int argc, char** argv)
{
    return run_main(argc, argv, "C19", "C19", make_items, warmup);
}
