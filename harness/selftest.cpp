// selftest.cpp: the machinery checks itself on programs whose answer is known
// (litmus tests for the memory model, lock/condvar/time models, detectors).
// Item names carry the expectation:  "EXPECT=<violation key or none> OUT=<distinct outcomes or *> :: text"
#include <atomic>
#include <chrono>
#include <condition_variable>
#include <mutex>
#include <shared_mutex>
#include <thread>
#include "common.h"

using namespace mcrt;
using namespace std::chrono_literals;

namespace {
struct Shared {
    std::atomic<int> x{0}, y{0};
    std::atomic<long> z{0};
    int data = 0;
    int r1 = -1, r2 = -1, r3 = -1, r4 = -1;
    std::mutex m, m2;
    std::timed_mutex tm;
    std::shared_mutex sm;
    std::condition_variable cv;
    bool flag = false;
};

void add(std::vector<Item>& items, const char* expect, const char* out, const std::string& text, std::function<void(Shared*)> thr1,
         std::function<void(Shared*)> thr2, std::function<void(Shared*)> fin = nullptr, int P = 4, int R = 2,
         std::function<void(Shared*)> thr3 = nullptr, std::function<void(Shared*)> thr4 = nullptr)
{
    Item it;
    it.name = std::string("EXPECT=") + expect + " OUT=" + out + " :: " + text;
    it.body = [=] {
        Shared* s = new Shared();
        std::vector<int> ids;
        ids.push_back(spawn([=] { thr1(s); }));
        ids.push_back(spawn([=] { thr2(s); }));
        if (thr3) ids.push_back(spawn([=] { thr3(s); }));
        if (thr4) ids.push_back(spawn([=] { thr4(s); }));
        for (int id : ids) join(id);
        if (fin) fin(s);
        observe((uint64_t)(s->r1 + 1) * 1000 + (s->r2 + 1) * 100 + (s->r3 + 1) * 10 + (s->r4 + 1));
        delete s;
    };
    it.bounds.P = P;
    it.bounds.D = 12;
    it.bounds.R = R;
    it.bounds.S = 1;
    it.bounds.W = 1;
    items.push_back(it);
}
thread_local int tl_counter = 7;
std::vector<int>& tl_vec()
{
    static thread_local std::vector<int> v;  // arena memory owned by a thread_local object
    return v;
}
struct TlProbe {
    Shared* s = nullptr;
    ~TlProbe() { if (s) s->x.fetch_add(1); }
};
TlProbe& tl_probe()
{
    static thread_local TlProbe p;
    return p;
}
constexpr auto RLX = std::memory_order_relaxed;
constexpr auto ACQ = std::memory_order_acquire;
constexpr auto REL = std::memory_order_release;
constexpr auto SC = std::memory_order_seq_cst;

void make_items(const Options&, std::vector<Item>& items)
{
    // ---- message passing
    add(items, "none", "2", "MP release/acquire: data visible after the flag, no race",
        [](Shared* s) { s->data = 1; s->x.store(1, REL); },
        [](Shared* s) { if (s->x.load(ACQ)) { s->r1 = s->data; MC_CHECK(s->r1 == 1, "mp-stale", "data not visible"); } });
    add(items, "data-race", "*", "MP relaxed flag: the plain data races",
        [](Shared* s) { s->data = 1; s->x.store(1, RLX); },
        [](Shared* s) { if (s->x.load(RLX)) s->r1 = s->data; });
    add(items, "data-race", "*", "MP release store / relaxed load: still a race",
        [](Shared* s) { s->data = 1; s->x.store(1, REL); },
        [](Shared* s) { if (s->x.load(RLX)) s->r1 = s->data; });
    // ---- store buffering: r1 = y, r2 = x after x=1 / y=1
    add(items, "none", "3", "SB seq_cst: (0,0) is forbidden, 3 outcomes",
        [](Shared* s) { s->x.store(1, SC); s->r1 = s->y.load(SC); },
        [](Shared* s) { s->y.store(1, SC); s->r2 = s->x.load(SC); });
    add(items, "none", "4", "SB release/acquire: (0,0) allowed, 4 outcomes",
        [](Shared* s) { s->x.store(1, REL); s->r1 = s->y.load(ACQ); },
        [](Shared* s) { s->y.store(1, REL); s->r2 = s->x.load(ACQ); });
    add(items, "none", "4", "SB relaxed: 4 outcomes",
        [](Shared* s) { s->x.store(1, RLX); s->r1 = s->y.load(RLX); },
        [](Shared* s) { s->y.store(1, RLX); s->r2 = s->x.load(RLX); });
    // ---- coherence: a reader never sees x go backwards (CoRR), even relaxed
    add(items, "none", "*", "CoRR relaxed: second read never older than the first",
        [](Shared* s) { s->x.store(1, RLX); s->x.store(2, RLX); },
        [](Shared* s) {
            s->r1 = s->x.load(RLX);
            s->r2 = s->x.load(RLX);
            MC_CHECK(s->r2 >= s->r1, "corr", "coherence violated: read %d then %d", s->r1, s->r2);
        });
    // ---- IRIW relaxed: the two readers may disagree on the order (needs two stale reads)
    add(items, "none", "*", "COVER=1 IRIW relaxed: the non-multi-copy-atomic outcome is reachable with two stale reads",
        [](Shared* s) { s->x.store(1, RLX); }, [](Shared* s) { s->y.store(1, RLX); },
        [](Shared* s) { if (s->r1 == 1 && s->r2 == 0 && s->r3 == 1 && s->r4 == 0) cover(1); }, 3, 2,
        [](Shared* s) { s->r1 = s->x.load(RLX); s->r2 = s->y.load(RLX); },
        [](Shared* s) { s->r3 = s->y.load(RLX); s->r4 = s->x.load(RLX); });
    add(items, "none", "*", "IRIW seq_cst: disagreement is forbidden",
        [](Shared* s) { s->x.store(1, SC); }, [](Shared* s) { s->y.store(1, SC); },
        [](Shared* s) { MC_CHECK(!(s->r1 == 1 && s->r2 == 0 && s->r3 == 1 && s->r4 == 0), "iriw-sc", "SC readers disagree"); }, 3, 2,
        [](Shared* s) { s->r1 = s->x.load(SC); s->r2 = s->y.load(SC); },
        [](Shared* s) { s->r3 = s->y.load(SC); s->r4 = s->x.load(SC); });
    // ---- release sequence through an RMW
    add(items, "none", "*", "release sequence continued by a relaxed RMW of another thread",
        [](Shared* s) { s->data = 1; s->x.store(1, REL); },
        [](Shared* s) { if (s->x.load(ACQ) == 2) { s->r1 = s->data; MC_CHECK(s->r1 == 1, "relseq", "data not visible"); } }, nullptr, 3, 2,
        [](Shared* s) { int e = 1; s->x.compare_exchange_strong(e, 2, RLX, RLX); });
    // ---- locks
    add(items, "none", "1", "mutex: increments are not lost",
        [](Shared* s) { std::lock_guard<std::mutex> g(s->m); int v = s->data; point(); s->data = v + 1; },
        [](Shared* s) { std::lock_guard<std::mutex> g(s->m); int v = s->data; point(); s->data = v + 1; },
        [](Shared* s) { MC_CHECK(s->data == 2, "lost", "lost update"); s->r1 = s->data; });
    add(items, "data-race", "*", "no mutex: racy increment",
        [](Shared* s) { int v = s->data; point(); s->data = v + 1; }, [](Shared* s) { int v = s->data; point(); s->data = v + 1; });
    add(items, "deadlock", "*", "lock order inversion deadlocks",
        [](Shared* s) { std::lock_guard<std::mutex> a(s->m); point(); std::lock_guard<std::mutex> b(s->m2); },
        [](Shared* s) { std::lock_guard<std::mutex> a(s->m2); point(); std::lock_guard<std::mutex> b(s->m); });
    add(items, "self-deadlock", "*", "relocking a non-recursive mutex",
        [](Shared* s) { s->m.lock(); s->m.lock(); }, [](Shared*) {});
    add(items, "bad-unlock", "*", "unlocking a mutex that is not held",
        [](Shared* s) { s->m.unlock(); }, [](Shared*) {});
    add(items, "none", "2", "try_lock_for: both outcomes (acquired / timed out) are explored",
        [](Shared* s) { std::lock_guard<std::timed_mutex> g(s->tm); point(); },
        [](Shared* s) { if (s->tm.try_lock_for(5ms)) { s->r1 = 1; s->tm.unlock(); } else s->r1 = 0; });
    add(items, "none", "*", "shared_mutex: two readers can be inside together, writer excluded",
        [](Shared* s) { std::shared_lock<std::shared_mutex> g(s->sm); s->r1 = s->data; point(); MC_CHECK(s->data == s->r1, "rw", "changed under shared lock"); },
        [](Shared* s) { std::shared_lock<std::shared_mutex> g(s->sm); s->r2 = s->data; }, nullptr, 3, 1,
        [](Shared* s) { std::unique_lock<std::shared_mutex> g(s->sm); s->data = 5; });
    // ---- condition variables
    add(items, "none", "1", "condvar with predicate loop: never hangs, sees the flag",
        [](Shared* s) { std::unique_lock<std::mutex> l(s->m); s->cv.wait(l, [s] { return s->flag; }); s->r1 = s->data; },
        [](Shared* s) { { std::lock_guard<std::mutex> g(s->m); s->data = 7; s->flag = true; } s->cv.notify_all(); });
    add(items, "deadlock", "*", "lost wake-up: flag set and notified without the mutex",
        [](Shared* s) { std::unique_lock<std::mutex> l(s->m); while (!s->x.load()) s->cv.wait(l); },
        [](Shared* s) { s->x.store(1); s->cv.notify_all(); });
    add(items, "spurious", "*", "wait without a predicate loop is exposed by a spurious wake-up",
        [](Shared* s) { std::unique_lock<std::mutex> l(s->m); if (!s->flag) s->cv.wait(l); MC_CHECK(s->flag, "spurious", "woke up without the flag"); },
        [](Shared* s) { { std::lock_guard<std::mutex> g(s->m); s->flag = true; } s->cv.notify_all(); });
    add(items, "none", "2", "wait_for: both the notified and the timed-out outcome are explored",
        [](Shared* s) { std::unique_lock<std::mutex> l(s->m); s->r1 = s->cv.wait_for(l, 10ms, [s] { return s->flag; }); },
        [](Shared* s) { { std::lock_guard<std::mutex> g(s->m); s->flag = true; } s->cv.notify_all(); });
    // ---- spin with yield terminates; spin without progress is a livelock
    add(items, "none", "1", "spin-wait with yield on a flag set by the other thread",
        [](Shared* s) { while (!s->x.load()) std::this_thread::yield(); s->r1 = 1; }, [](Shared* s) { s->x.store(1); });
    add(items, "livelock", "*", "spin-wait on a flag nobody sets",
        [](Shared* s) { while (!s->x.load()) std::this_thread::yield(); }, [](Shared*) {});
    // ---- memory safety
    add(items, "use-after-free", "*", "read after delete",
        [](Shared* s) { int* p = new int(3); delete p; s->r1 = *p; }, [](Shared*) {});
    add(items, "double-free", "*", "double delete",
        [](Shared* s) { int* p = new int(3); s->z.store((long)(intptr_t)p); delete p; point(); delete (int*)(intptr_t)s->z.load(); }, [](Shared*) {});
    add(items, "data-race", "*", "free races with a reader (pointer and done-flag passed with relaxed atomics: no happens-before)",
        [](Shared* s) { int* p = new int(3); s->z.store((long)(intptr_t)p, RLX); while (!s->y.load(RLX)) std::this_thread::yield(); delete p; },
        [](Shared* s) { long v; while (!(v = s->z.load(RLX))) std::this_thread::yield(); s->r1 = *(int*)(intptr_t)v; s->y.store(1, RLX); }, nullptr, 2, 0);
    add(items, "none", "1", "free after a reader finished, with release/acquire hand-over: no race",
        [](Shared* s) { int* p = new int(3); s->z.store((long)(intptr_t)p, REL); while (!s->y.load(ACQ)) std::this_thread::yield(); delete p; },
        [](Shared* s) { long v; while (!(v = s->z.load(ACQ))) std::this_thread::yield(); s->r1 = *(int*)(intptr_t)v; s->y.store(1, REL); }, nullptr, 2, 0);
    // ---- thread_local is per modelled thread, fresh in every execution, destroyed at thread exit
    add(items, "none", "1", "thread_local: each thread has its own copy, initialised from the image in every execution",
        [](Shared* s) { MC_CHECK(tl_counter == 7, "tls-init", "thread_local not fresh"); tl_counter += 1; point(); tl_counter += 1; s->r1 = tl_counter; },
        [](Shared* s) { MC_CHECK(tl_counter == 7, "tls-init", "thread_local not fresh"); tl_counter += 10; point(); tl_counter += 10; s->r2 = tl_counter; },
        [](Shared* s) { MC_CHECK(s->r1 == 9 && s->r2 == 27, "tls-shared", "thread_local shared between threads"); });
    add(items, "none", "1", "thread_local object with constructor/destructor: built per thread on first use, destroyed at thread exit",
        [](Shared* s) { tl_vec().push_back(1); point(); tl_vec().push_back(2); s->r1 = (int)tl_vec().size(); },
        [](Shared* s) { tl_vec().push_back(1); point(); s->r2 = (int)tl_vec().size(); },
        [](Shared* s) { MC_CHECK(s->r1 == 2 && s->r2 == 1, "tls-obj", "thread_local vector shared or stale");
                        MC_CHECK(s->x.load() == 2, "tls-dtor", "thread_local destructors did not run at thread exit"); },
        3, 1, [](Shared* s) { tl_probe().s = s; }, [](Shared* s) { tl_probe().s = s; });
    add(items, "crash", "*", "null dereference is reported with its schedule",
        [](Shared* s) { int* volatile p = nullptr; s->r1 = *p; }, [](Shared*) {});
}
}  // namespace

int main(int argc, char** argv)
{
    return run_main(argc, argv, "SELF", "selftest", make_items);
}
