// C20: throwing user code never leaves a wrapper locked or half-modified
// Fault enumeration: every single (thorough: every pair) "n-th call of site s throws" plan,
// combined with deviation-bounded exploration of the interleavings.
#define HX_MAIN
#include <optional>
#include "locks_impl.h"
#include "gmlc/concurrency/DelayedDestructor.hpp"
#include "gmlc/concurrency/SearchableObjectHolder.hpp"
#include "gmlc/libguarded/cow_guarded.hpp"
#include "gmlc/libguarded/lr_guarded.hpp"

using namespace mcrt;
using namespace lk;
using hx::Pair;

namespace lk {
std::function<void()>* g_hold[8];
WInfo g_winfo[4];
uint64_t g_quiesce = ~uint64_t(0);
void* g_other = nullptr;
}

namespace {
constexpr uint32_t M_FUNC = 1u << hx::SITE_FUNC, M_COPY = 1u << hx::SITE_COPY, M_ASSIGN = 1u << hx::SITE_ASSIGN,
                   M_EQ = 1u << hx::SITE_EQ, M_FUNC2 = 1u << hx::SITE_FUNC2, M_PRED = 1u << hx::SITE_PRED, M_CB = 1u << hx::SITE_CALLBACK;

void add(const Options& o, std::vector<Item>& items, const std::string& name, std::function<void()> body, uint32_t mask,
         int Pq = 2, int Pt = 3)
{
    Item it;
    it.name = name;
    it.body = std::move(body);
    it.bounds = hx::tier_bounds(o, Pq, Pt);
    it.enumerate_faults = true;
    it.fault_mask = mask;
    items.push_back(it);
}

// run f from a destructor while another exception is propagating (std::uncaught_exceptions() > 0 inside f):
// wrappers are used from clean-up code, and a cow write handle dropped by a throwing caller commits this way
struct Unwinding {};
template <class F>
struct RunInDtor {
    F f;
    ~RunInDtor() { f(); }  // f must not let anything escape
};
template <class F>
void during_unwinding(F f)
{
    try {
        RunInDtor<F> g{f};
        throw Unwinding();
    }
    catch (const Unwinding&) {
    }
}

// ====================================================================== A. lr_guarded
using LR = lg::lr_guarded<Pair>;
int g_effect, g_threw, g_mods;

void lr_body(int writers, int mods, int readers, int reads, bool unwinding = false)
{
    g_effect = g_threw = g_mods = 0;
    hx::win_reset();
    size_t base_blocks = live_blocks();
    LR* lr = new LR(0);
    const void* lr_mutex = hx::probe_lock([&] { lr->modify([](Pair&) {}); });  // the writer mutex, found through the API
    {
        std::vector<int> ids;
        for (int w = 0; w < writers; w++)
            ids.push_back(spawn([lr, mods, unwinding] {
                for (int i = 0; i < mods; i++) {
                  auto one = [&] {
                    int calls = 0;
                    bool first_done = false;
                    ++g_mods;
                    try {
                        lr->modify([&](Pair& x) {
                            ++calls;
                            may_throw(hx::SITE_FUNC);  // throws before touching anything
                            hx::WriteWin win(&x, "modify functor");
                            ++x.a;
                            point();
                            may_throw(hx::SITE_FUNC2);  // throws half-way: the copy is left torn by the user code
                            ++x.b;
                            if (calls == 1) first_done = true;
                        });
                        MC_CHECK(calls == 2, "functor-calls", "modify() returned normally after %d functor calls", calls);
                    }
                    catch (const Injected&) {
                        ++g_threw;
                        // documented: first application failed -> rolled back; second failed -> completed by copying
                        MC_CHECK(calls == 1 || calls == 2, "functor-calls", "exception after %d functor calls", calls);
                    }
                    if (first_done) ++g_effect;
                    stamp();
                  };
                  if (unwinding)
                      during_unwinding(one);
                  else
                      one();
                }
            }));
        for (int r = 0; r < readers; r++)
            ids.push_back(spawn([lr, reads] {
                int last = -1;
                for (int i = 0; i < reads; i++) {
                    auto h = lr->lock_shared();
                    int v = hx::read_pair(*h, "reader under shared handle");
                    MC_CHECK(v >= last, "non-monotone", "reader observed %d after %d", v, last);
                    MC_CHECK(v <= g_mods, "future-read", "reader observed %d with %d modify calls begun", v, g_mods);
                    last = v;
                    observe((uint64_t)v);
                }
            }));
        for (int id : ids) join(id);
    }
    // all-or-nothing, one consistent value, both copies agree, still usable
    int fin = hx::read_pair(*lr->lock_shared(), "final read");
    MC_CHECK(fin == g_effect, "not-atomic", "final value %d but %d modifications took effect (%d threw)", fin, g_effect, g_threw);
    lr->modify([](Pair&) {});  // must not block: the writer mutex was released on unwinding
    int fin2 = hx::read_pair(*lr->lock_shared(), "final read of the other copy");
    MC_CHECK(fin2 == fin, "copies-differ", "the two internal copies disagree after an exception (%d vs %d)", fin, fin2);
    MC_CHECK(!is_locked(lr_mutex), "leaked-lock", "writer mutex left locked");
    delete lr;
    MC_CHECK(live_blocks() == base_blocks, "leak", "%zu arena blocks not freed", live_blocks() - base_blocks);
}

// ====================================================================== B. lock-based wrappers
std::vector<Instance> g_insts;
struct OpI {
    uint8_t code;
    int arg;
};
void lock_body(int inst, std::vector<std::vector<OpI>> threads)
{
    const Instance& in = g_insts[inst];
    g_nhist = 0;
    lk::g_quiesce = ~uint64_t(0);
    hx::win_reset();
    for (auto& h : lk::g_hold) h = nullptr;
    size_t base_blocks = live_blocks();
    for (auto& e : lk::g_winfo) e = lk::WInfo{};  // executions can be abandoned before destroy()
    void* w = in.create();
    {
        std::vector<int> ids;
        for (auto& ops : threads)
            ids.push_back(spawn([&in, w, ops] {
                for (auto& o : ops) {
                    int before = g_nhist;
                    try {
                        in.ops[o.code](w, o.arg);
                    }
                    catch (const Injected&) {
                        // the exception must leave the operation without effect and without the lock
                        for (int i = before; i < g_nhist; i++)
                            if (g_hist[i].fiber == self() && g_hist[i].ret == INF) {
                                // exchange copies its result out after the swap: the write may have happened
                                g_hist[i].kind = o.code == EXCHANGE ? HK_MAYBE_WRITE : HK_NONE;
                                g_hist[i].arg = o.arg;
                                g_hist[i].ret = stamp();
                            }
                        MC_CHECK(holds(in.mutex_addr(w)) == 0, "lock-kept", "%s threw but this thread still holds the wrapper's lock",
                                 opc_name[o.code]);
                        observe(77);
                    }
                }
            }));
        for (int id : ids) join(id);
    }
    MC_CHECK(!is_locked(in.mutex_addr(w)), "leaked-lock", "the wrapper's mutex is still locked after an exception");
    const Pair* obj = in.obj_addr(w);
    if (obj) {
        MC_CHECK(obj->a == obj->b, "half-modified", "wrapped object left half-modified (a=%d b=%d)", obj->a, obj->b);
        // record the final value as a read by main, then require a sequential explanation
        int hi = h_begin(LOAD);
        h_end(hi, HK_READ, 0, obj->a);
    } else {
        // no handle interface (atomic_guarded): read through load(); its copy may be the injected fault: retry
        for (int attempt = 0; attempt < 3; attempt++) {
            int before = g_nhist;
            try {
                in.ops[LOAD](w, 0);
                break;
            }
            catch (const Injected&) {
                for (int i = before; i < g_nhist; i++)
                    if (g_hist[i].ret == INF) {
                        g_hist[i].kind = HK_NONE;
                        g_hist[i].ret = stamp();
                    }
            }
        }
    }
    const char* m = linearizable(0, -1);
    MC_CHECK(m == nullptr, "not-linearizable", "%s", m);
    in.destroy(w);
    MC_CHECK(live_blocks() == base_blocks, "leak", "%zu arena blocks not freed", live_blocks() - base_blocks);
}

// ====================================================================== C. cow_guarded
using COW = lg::cow_guarded<Pair>;
void cow_body(int writers, bool reader, bool user_throws = false)
{
    hx::win_reset();
    size_t base_blocks = live_blocks();
    COW* cow = new COW(0);
    hx::g_no_faults = true;
    const void* cow_mutex = hx::probe_lock([&] { cow->lock().cancel(); });  // the writer mutex, found through the API
    hx::g_no_faults = false;
    int commits = 0;
    {
        std::vector<int> ids;
        for (int w = 0; w < writers; w++)
            ids.push_back(spawn([cow, &commits, user_throws, cow_mutex] {
                try {
                    auto h = cow->lock();  // copies the committed value: the copy constructor may throw
                    hx::bump_pair(*h, "writer modifies private copy");
                    ++commits;
                    if (user_throws) throw Unwinding();  // the handle is released (= committed) by stack unwinding
                    // released (committed) here
                }
                catch (const Unwinding&) {
                    MC_CHECK(holds(cow_mutex) == 0, "lock-kept", "write handle dropped by unwinding but the writer mutex is still held");
                }
                catch (const Injected&) {
                    MC_CHECK(holds(cow_mutex) == 0, "lock-kept", "lock() threw but the writer mutex is still held by this thread");
                    observe(77);
                }
            }));
        if (reader)
            ids.push_back(spawn([cow] {
                for (int i = 0; i < 2; i++) {
                    auto s = cow->lock_shared();
                    int v = hx::read_pair(*s, "snapshot");
                    observe((uint64_t)v);
                }
            }));
        for (int id : ids) join(id);
    }
    int fin = hx::read_pair(*cow->lock_shared(), "final read");
    MC_CHECK(fin == commits, "lost-update", "final value %d after %d successful commits", fin, commits);
    {
        // a later writer must be able to lock and commit (leaked reader registration would make it spin forever)
        bool ok = false;
        for (int attempt = 0; attempt < 3 && !ok; attempt++) {
            try {
                auto h = cow->lock();
                hx::bump_pair(*h, "final writer");
                ok = true;
            }
            catch (const Injected&) {
            }
        }
    }
    delete cow;
    MC_CHECK(live_blocks() == base_blocks, "leak", "%zu arena blocks not freed", live_blocks() - base_blocks);
}

// ====================================================================== D. deferred_guarded
using DG = lg::deferred_guarded<Pair, std::shared_timed_mutex>;
int g_exec_log[16], g_nexec;
struct DShared {
    std::future<int> fut[8];
    bool has[8] = {false};
    std::future<void> vfut[8];  // modify_async of a functor returning void
    bool hasv[8] = {false};
};
void dg_body(int variant)
{
    g_nexec = 0;
    hx::win_reset();
    size_t base_blocks = live_blocks();
    DG* dg = new DG(0);
    const void* dg_mutex = hx::probe_lock([&] { (void)dg->lock_shared(); });  // found through the API
    DShared* sh = new DShared();
    int ok_count = 0;  // functors that completed
    int accepted = 0;
    auto fun = [&ok_count](int id) {
        return [id, &ok_count](Pair& x) {
            for (int i = 0; i < g_nexec; i++) MC_CHECK(g_exec_log[i] != id, "executed-twice", "modification #%d executed twice", id);
            g_exec_log[g_nexec++] = id;
            may_throw(hx::SITE_FUNC);
            hx::WriteWin w(&x, "deferred functor");
            ++x.a;
            point();
            ++x.b;
            ++ok_count;
            return id;
        };
    };
    {
        std::vector<int> ids;
        auto submitter = [&](std::vector<int> kinds, int base) {
            ids.push_back(spawn([dg, sh, kinds, base, fun, &accepted, dg_mutex] {
                int id = base;
                for (int k : kinds) {
                    ++id;
                    ++accepted;
                    if (k == 0) {
                        int before = g_nexec;
                        try {
                            dg->modify_detach(fun(id));
                        }
                        catch (const Injected&) {
                            // only the direct path propagates: then the functor has run in this call
                            MC_CHECK(g_nexec > before, "phantom-exception", "modify_detach threw although its functor did not run in the call");
                            MC_CHECK(holds(dg_mutex) == 0, "lock-kept", "modify_detach threw but the lock is still held");
                            observe(77);
                        }
                    } else if (k == 2) {
                        // void-returning functor: its exception belongs in the future, never in the submitter
                        auto f = fun(id);
                        try {
                            sh->vfut[id] = dg->modify_async([f](Pair& x) { (void)f(x); });
                            sh->hasv[id] = true;
                        }
                        catch (const Injected&) {
                            fail("exception-escaped", "modify_async(void functor) let the functor's exception escape to the submitter");
                        }
                        catch (const std::exception& e) {
                            fail("exception-escaped", "modify_async(void functor) threw %s", e.what());
                        }
                    } else {
                        sh->fut[id] = dg->modify_async(fun(id));
                        sh->has[id] = true;
                    }
                }
            }));
        };
        if (variant == 0) {
            submitter({0}, 0);
            submitter({0}, 4);
        } else if (variant == 1) {
            submitter({1}, 0);
            ids.push_back(spawn([dg] {
                auto h = dg->lock_shared();
                hx::read_pair(*h, "reader");
                point();
            }));
            submitter({0}, 4);
        } else if (variant == 2) {
            submitter({0, 0}, 0);
            ids.push_back(spawn([dg] {
                auto h = dg->lock_shared();
                hx::read_pair(*h, "reader");
            }));
        } else if (variant == 3) {
            submitter({0, 1}, 0);
            submitter({1}, 4);
        } else {
            // void-returning modify_async on the direct and on the queued path
            submitter({2, 2}, 0);
            ids.push_back(spawn([dg] {
                auto h = dg->lock_shared();
                hx::read_pair(*h, "reader");
                point();
            }));
        }
        for (int id : ids) join(id);
    }
    {
        auto h = dg->lock_shared();
        MC_CHECK(g_nexec == accepted, "stranded", "after quiescence and lock_shared(), %d of %d accepted modifications have run", g_nexec, accepted);
        int v = hx::read_pair(*h, "final read");
        MC_CHECK(v == ok_count, "half-modified", "final value %d but %d functors completed", v, ok_count);
    }
    MC_CHECK(!is_locked(dg_mutex), "leaked-lock", "deferred_guarded mutex left locked");
    for (int id = 0; id < 8; id++) {
        if (!sh->has[id]) continue;
        MC_CHECK(sh->fut[id].wait_for(std::chrono::seconds(0)) == std::future_status::ready, "future-not-ready", "future #%d not ready", id);
        try {
            int v = sh->fut[id].get();
            MC_CHECK(v == id, "future-value", "future #%d holds %d", id, v);
        }
        catch (const Injected&) {
            observe(78);  // exception captured in the future, as documented
        }
    }
    for (int id = 0; id < 8; id++) {
        if (!sh->hasv[id]) continue;
        MC_CHECK(sh->vfut[id].wait_for(std::chrono::seconds(0)) == std::future_status::ready, "future-not-ready", "future #%d (void) not ready", id);
        try {
            sh->vfut[id].get();
        }
        catch (const Injected&) {
            observe(79);  // captured in the future, as documented
        }
    }
    // order within one submitting thread
    for (int a = 0; a < g_nexec; a++)
        for (int b = a + 1; b < g_nexec; b++)
            if ((g_exec_log[a] - 1) / 4 == (g_exec_log[b] - 1) / 4)
                MC_CHECK(g_exec_log[a] < g_exec_log[b], "order", "modification #%d ran before #%d of the same thread", g_exec_log[a], g_exec_log[b]);
    delete sh;
    delete dg;
    MC_CHECK(live_blocks() == base_blocks, "leak", "%zu arena blocks not freed", live_blocks() - base_blocks);
}

// ====================================================================== E. DelayedDestructor
int g_dd_dtor[8];
struct DObj {
    int id;
    explicit DObj(int i): id(i) {}
    ~DObj() { ++g_dd_dtor[id]; }
};
using DD = gmlc::concurrency::DelayedDestructor<DObj>;
void dd_body(int variant)
{
    memset(g_dd_dtor, 0, sizeof g_dd_dtor);
    size_t base_blocks = live_blocks();
    DD* dd = new DD([](std::shared_ptr<DObj>&) { may_throw(hx::SITE_CALLBACK); });
    const void* dd_mutex = hx::probe_lock([&] { (void)dd->size(); });  // the container's lock, found through the API
    {
        std::vector<int> ids;
        ids.push_back(spawn([dd] {
            dd->addObjectsToBeDestroyed(std::make_shared<DObj>(1));
            dd->addObjectsToBeDestroyed(std::make_shared<DObj>(2));
            size_t r = dd->destroyObjects();  // noexcept: a throwing callback must not escape (terminate = violation)
            observe(r);
        }));
        if (variant >= 1)
            ids.push_back(spawn([dd, variant] {
                dd->addObjectsToBeDestroyed(std::make_shared<DObj>(3));
                if (variant == 2) observe(100 + dd->destroyObjects());
                else observe(200 + dd->size());
            }));
        for (int id : ids) join(id);
    }
    MC_CHECK(!is_locked(dd_mutex), "leaked-lock", "destruction lock left locked after a throwing callback");
    // still usable
    dd->addObjectsToBeDestroyed(std::make_shared<DObj>(4));
    (void)dd->destroyObjects();
    delete dd;
    for (int id = 1; id <= 4; id++)
        if (id != 3 || variant >= 1) MC_CHECK(g_dd_dtor[id] == 1, "destroy-count", "object %d destroyed %d times", id, g_dd_dtor[id]);
    MC_CHECK(live_blocks() == base_blocks, "leak", "%zu arena blocks not freed", live_blocks() - base_blocks);
}

// ====================================================================== F. SearchableObjectHolder
struct SObj {
    int id;
    explicit SObj(int i): id(i) {}
};
using SOH = gmlc::concurrency::SearchableObjectHolder<SObj, int>;
void soh_body(int variant)
{
    size_t base_blocks = live_blocks();
    SOH* h = new SOH();
    const void* soh_mutex = hx::probe_lock([&] { (void)h->empty(); });  // the map lock, found through the API
    h->addObject("a", std::make_shared<SObj>(1), 1);
    h->addObject("b", std::make_shared<SObj>(2), 2);
    int removed = 0;
    {
        std::vector<int> ids;
        ids.push_back(spawn([h, &removed, soh_mutex] {
            try {
                bool r = h->removeObject([](const std::shared_ptr<SObj>& p) {
                    may_throw(hx::SITE_PRED);
                    return p->id == 2;
                });
                if (r) removed = 1;
            }
            catch (const Injected&) {
                MC_CHECK(holds(soh_mutex) == 0, "lock-kept", "removeObject(pred) threw but mapLock is still held");
                observe(77);
            }
        }));
        ids.push_back(spawn([h, variant, soh_mutex] {
            try {
                std::shared_ptr<SObj> r;
                auto pred = [](const std::shared_ptr<SObj>& p) {
                    may_throw(hx::SITE_PRED);
                    return p->id == 1;
                };
                if (variant == 0) r = h->findObject(pred);
                else r = h->findObject(pred, 1);
                MC_CHECK(r && r->id == 1, "find-result", "findObject(pred) did not return object 1");
            }
            catch (const Injected&) {
                MC_CHECK(holds(soh_mutex) == 0, "lock-kept", "findObject(pred) threw but mapLock is still held");
                observe(78);
            }
        }));
        for (int id : ids) join(id);
    }
    MC_CHECK(!is_locked(soh_mutex), "leaked-lock", "mapLock left locked after a throwing predicate");
    // map unchanged by a failed call: "a" is always there, "b" iff it was not removed, with its tag
    {
    auto a = h->findObject(std::string("a"));
    MC_CHECK(a && a->id == 1 && h->checkObjectType("a", 1), "map-changed", "entry a damaged");
    auto b = h->findObject(std::string("b"));
    MC_CHECK((b != nullptr) == !removed, "map-changed", "entry b is %s but removal %s", b ? "present" : "absent", removed ? "succeeded" : "did not succeed");
    MC_CHECK(h->checkObjectType("b", 2) == !removed, "map-changed", "tag of b inconsistent with its entry");
    }
    h->removeObject(std::string("a"));
    h->removeObject(std::string("b"));
    delete h;
    MC_CHECK(live_blocks() == base_blocks, "leak", "%zu arena blocks not freed", live_blocks() - base_blocks);
}

void make_items(const Options& o, std::vector<Item>& items)
{
    bool thorough = o.tier == "thorough";
    // A
    add(o, items, "lr_guarded<Pair>: 1 writer x 2 modify (throwing functor) | 1 reader x 2", [] { lr_body(1, 2, 1, 2); }, M_FUNC | M_FUNC2, 3, 4);
    add(o, items, "lr_guarded<Pair>: 2 writers x 1 modify (throwing functor) | 1 reader x 2", [] { lr_body(2, 1, 1, 2); }, M_FUNC | M_FUNC2, 3, 4);
    add(o, items, "lr_guarded<Pair>: 1 writer x 1 modify (throwing functor) | 2 readers x 1", [] { lr_body(1, 1, 2, 1); }, M_FUNC | M_FUNC2, 3, 4);
    add(o, items, "lr_guarded<Pair>: 1 writer x 2 modify called from a destructor during stack unwinding (throwing functor) | 1 reader x 2",
        [] { lr_body(1, 2, 1, 2, true); }, M_FUNC | M_FUNC2, 3, 4);
    add(o, items, "lr_guarded<Pair>: 2 writers x 1 modify called from a destructor during stack unwinding (throwing functor) | 1 reader x 1",
        [] { lr_body(2, 1, 1, 1, true); }, M_FUNC | M_FUNC2, 3, 4);
    if (thorough) add(o, items, "lr_guarded<Pair>: 2 writers x 2 modify (throwing functor) | 1 reader x 2", [] { lr_body(2, 2, 1, 2); }, M_FUNC | M_FUNC2, 2, 2);
    // B
    g_insts = all_instances();
    for (int ii = 0; ii < (int)g_insts.size(); ii++) {
        const Instance& in = g_insts[ii];
        bool pick = in.name == "guarded<Pair,mutex>" || in.name == "guarded_opt<Pair,timed_mutex>(locking on)" ||
            in.name == "ordered_guarded<Pair,shared_mutex>" || in.name == "atomic_guarded<Pair>" ||
            (thorough && (in.name == "ordered_guarded<Pair,mutex>" || in.name == "guarded<Pair,timed_mutex>" ||
                          in.name == "ordered_guarded<Pair,shared_timed_mutex>"));
        if (!pick) continue;
        std::vector<OpI> al;
        for (int c : {LOAD, STORE, ASSIGN, MODIFY, MODIFY_RET, READ, READ_RET, EXCHANGE, CAS, CONVERT})
            if (in.has(c)) al.push_back(OpI{(uint8_t)c, c == CAS ? (0 * 4 + 2) : (c == STORE ? 5 : c == ASSIGN ? 6 : c == EXCHANGE ? 7 : 0)});
        for (size_t a = 0; a < al.size(); a++)
            for (size_t b = a; b < al.size(); b++) {
                std::string nm = in.name + " | " + opc_name[al[a].code] + " | " + opc_name[al[b].code] + "  (throwing copy/assign/compare/functor)";
                std::vector<std::vector<OpI>> th = {{al[a]}, {al[b]}};
                add(o, items, nm, [ii, th] { lock_body(ii, th); }, M_COPY | M_ASSIGN | M_EQ | M_FUNC, 2, 3);
            }
        if (thorough)
            for (size_t a = 0; a < al.size(); a++)
                for (size_t b = 0; b < al.size(); b++) {
                    std::string nm = in.name + " | " + opc_name[al[a].code] + " " + opc_name[al[b].code] + " | " + opc_name[al[a].code];
                    std::vector<std::vector<OpI>> th = {{al[a], al[b]}, {al[a]}};
                    add(o, items, nm, [ii, th] { lock_body(ii, th); }, M_COPY | M_ASSIGN | M_EQ | M_FUNC, 2, 2);
                }
    }
    // C
    add(o, items, "cow_guarded<Pair>: 2 writers lock+commit (throwing copy constructor) | reader x 2", [] { cow_body(2, true); }, M_COPY, 2, 3);
    add(o, items, "cow_guarded<Pair>: 2 writers lock+commit (throwing copy constructor)", [] { cow_body(2, false); }, M_COPY, 3, 4);
    add(o, items, "cow_guarded<Pair>: 2 writers lock, modify, then user code throws: handle released by unwinding (throwing copy constructor) | reader x 2",
        [] { cow_body(2, true, true); }, M_COPY, 2, 3);
    if (thorough) add(o, items, "cow_guarded<Pair>: 3 writers lock+commit (throwing copy constructor)", [] { cow_body(3, false); }, M_COPY, 2, 2);
    // D
    static const char* dn[] = {"modify_detach | modify_detach", "modify_async | reader | modify_detach", "modify_detach modify_detach | reader",
                               "modify_detach modify_async | modify_async", "modify_async(void) x2 | reader"};
    for (int v = 0; v < 5; v++)
        add(o, items, std::string("deferred_guarded<Pair>: ") + dn[v] + " (throwing functors)", [v] { dg_body(v); }, M_FUNC, 3, 4);
    // E
    for (int v = 0; v < 3; v++)
        add(o, items, "DelayedDestructor: throwing callback, variant " + std::to_string(v), [v] { dd_body(v); }, M_CB, 3, 4);
    // F
    for (int v = 0; v < 2; v++)
        add(o, items, "SearchableObjectHolder: removeObject(pred) | findObject(pred" + std::string(v ? ",type" : "") + ") with throwing predicates",
            [v] { soh_body(v); }, M_PRED, 3, 4);
}
}  // namespace

int main(int argc, char** argv)
{
    return run_main(argc, argv, "C20", "C20", make_items);
}
