// C04: cow_guarded snapshots are immutable; commits are atomic and never lost
// (with -DMODE_C14: read-side non-blocking oracles on the same programs)
#define HX_MAIN
#include <chrono>
#include "common.h"
#include "gmlc/libguarded/cow_guarded.hpp"

using namespace mcrt;
using hx::Pair;
using COW_M = gmlc::libguarded::cow_guarded<Pair>;                     // default mutex
using COW_T = gmlc::libguarded::cow_guarded<Pair, std::timed_mutex>;  // the timed reader forms are used with a timed mutex

namespace {
int g_rel_invoked;  // commits whose handle release has begun
int g_rel_returned;  // commits whose handle release has completed
char g_writer_token;  // ghost object for the writer-section windows

enum WOp { COMMIT, CANCEL, MOVE_COMMIT, MOVE_CANCEL, UNWIND_COMMIT };
struct UserError {};
const char* won[] = {"commit", "cancel", "move+commit", "move+cancel", "user code throws: released by unwinding"};
struct Reader {
    int snaps;
    int form;
    bool keep;  // keep every snapshot until the end of the thread
};
struct Prog {
    std::vector<std::vector<int>> writers;
    std::vector<Reader> readers;
    bool timed_mutex = false;  // cow_guarded<Pair, std::timed_mutex>
};
const char* formn[] = {"lock_shared", "try_lock_shared", "try_lock_shared_for", "try_lock_shared_until"};

std::string text(const Prog& p)
{
    std::string s = p.timed_mutex ? "cow_guarded<Pair,timed_mutex>" : "cow_guarded<Pair>";
    for (auto& w : p.writers) {
        s += " | writer:";
        for (int op : w) s += std::string(" ") + won[op];
    }
    for (auto& r : p.readers)
        s += std::string(" | reader: ") + formn[r.form] + " x" + std::to_string(r.snaps) + (r.keep ? " (snapshots kept)" : "");
    return s;
}

template<class COW>
typename COW::shared_handle snapshot(COW* c, int form)
{
    using namespace std::chrono_literals;
#ifdef MODE_C14
    noblock_begin("cow_guarded read acquisition", 60);
#endif
    typename COW::shared_handle h;
    if constexpr (std::is_same_v<COW, COW_T>) {
        h = form == 0 ? c->lock_shared() :
            form == 1 ? c->try_lock_shared() :
            form == 2 ? c->try_lock_shared_for(1ms) :
                        c->try_lock_shared_until(std::chrono::steady_clock::now() + 1ms);
    } else {
        // programs that use a timed form are run on the timed-mutex instantiation (make_items)
        h = form == 0 ? c->lock_shared() : c->try_lock_shared();
    }
#ifdef MODE_C14
    noblock_end();
#endif
    return h;
}

template<class COW>
void body_t(const Prog& p)
{
    g_rel_invoked = g_rel_returned = 0;
    hx::win_reset();
    size_t base_blocks = live_blocks();
    COW* cow = new COW(0);
    int total_commits = 0;
    {
        std::vector<int> ids;
        for (auto& ops : p.writers) {
            for (int op : ops)
                if (op != CANCEL && op != MOVE_CANCEL) total_commits++;
            ids.push_back(spawn([cow, ops] {
                for (int op : ops) {
                    stamp();
                    int lo = g_rel_returned;
                    {
                        typename COW::handle h = cow->lock();
                        stamp();
                        int hi = g_rel_invoked;
                        MC_CHECK(bool(h), "null-handle", "cow_guarded::lock returned a null handle");
                        hx::win_open(&g_writer_token, true, "cow write handle (lock() .. release)");
                        int v = h->a;
                        MC_CHECK(h->ok(), "torn-copy", "write handle starts from a half-written copy (a=%d b=%d)", h->a, h->b);
                        MC_CHECK(v >= lo && v <= hi, "stale-start",
                                 "write handle starts from value %d but %d commits had completed before lock() and %d had begun",
                                 v, lo, hi);
                        hx::bump_pair(*h, "writer modifies private copy");
                        hx::win_close(&g_writer_token, true);
                        if (op == CANCEL) {
                            h.cancel();
                            MC_CHECK(!bool(h), "cancel-not-null", "handle not null after cancel()");
                        } else if (op == MOVE_CANCEL) {
                            typename COW::handle h2(std::move(h));
                            MC_CHECK(bool(h2) && h2->a == v + 1, "move-lost", "moved handle lost the modification");
                            h2.cancel();  // discards the copy and frees the writer lock through the moved-to handle
                            MC_CHECK(!bool(h2), "cancel-not-null", "handle not null after cancel()");
                        } else if (op == MOVE_COMMIT) {
                            typename COW::handle h2(std::move(h));
                            MC_CHECK(bool(h2) && h2->a == v + 1, "move-lost", "moved handle lost the modification");
                            stamp();
                            ++g_rel_invoked;
                            h2.reset();  // release through the moved-to handle
                            stamp();
                            ++g_rel_returned;
                        } else if (op == UNWIND_COMMIT) {
                            // user code throws while holding the handle: stack unwinding releases (= commits) it
                            stamp();
                            ++g_rel_invoked;
                            try {
                                typename COW::handle h2(std::move(h));
                                throw UserError();
                            }
                            catch (const UserError&) {
                            }
                            stamp();
                            ++g_rel_returned;
                        } else {
                            stamp();
                            ++g_rel_invoked;
                            h.reset();  // release: publishes the new value, then unlocks
                            stamp();
                            ++g_rel_returned;
                        }
                    }
                }
            }));
        }
        for (auto& r : p.readers) {
            ids.push_back(spawn([cow, r] {
                typename COW::shared_handle kept[4];
                int keptv[4];
                int last = -1;
                for (int i = 0; i < r.snaps; i++) {
                    stamp();
                    int lo = g_rel_returned;
                    typename COW::shared_handle s = snapshot(cow, r.form);
                    stamp();
                    int hi = g_rel_invoked;
                    MC_CHECK(bool(s), "null-handle", "cow_guarded %s returned a null snapshot", formn[r.form]);
                    int v = hx::read_pair(*s, "snapshot");
                    MC_CHECK(v >= lo, "stale-snapshot", "snapshot taken after %d commits had completed shows value %d", lo, v);
                    MC_CHECK(v <= hi, "future-snapshot", "snapshot shows %d commits but only %d releases had begun", v, hi);
                    MC_CHECK(v >= last, "non-monotone", "reader saw %d after %d", v, last);
                    last = v;
                    point();
                    int v2 = hx::read_pair(*s, "snapshot (re-read)");
                    MC_CHECK(v2 == v, "snapshot-changed", "snapshot changed from %d to %d while held", v, v2);
                    observe((uint64_t)v + 10 * i);
                    if (r.keep) {
                        kept[i] = s;
                        keptv[i] = v;
                        for (int k = 0; k <= i; k++) {
                            int vk = hx::read_pair(*kept[k], "older snapshot");
                            MC_CHECK(vk == keptv[k], "snapshot-changed", "older snapshot changed from %d to %d", keptv[k], vk);
                        }
                    }
                }
                // final look at everything we still hold
                for (int k = 0; k < r.snaps && r.keep; k++) {
                    point();
                    int vk = hx::read_pair(*kept[k], "older snapshot (final)");
                    MC_CHECK(vk == keptv[k], "snapshot-changed", "older snapshot changed from %d to %d", keptv[k], vk);
                }
            }));
        }
        for (int id : ids) join(id);
    }
    int fin = hx::read_pair(*cow->lock_shared(), "final read");
    MC_CHECK(fin == total_commits, "lost-update", "final committed value %d after %d commits", fin, total_commits);
    // the writer lock must be free again (cancel / commit released it)
    {
        typename COW::handle h = cow->lock();
        MC_CHECK(bool(h) && h->a == total_commits, "final-lock", "final lock() saw %d", h ? h->a : -1);
        h.cancel();
    }
    delete cow;
    MC_CHECK(live_blocks() == base_blocks, "leak", "%zu arena blocks not freed after destroying the cow_guarded",
             live_blocks() - base_blocks);
}

void body(const Prog& p)
{
    if (p.timed_mutex) body_t<COW_T>(p);
    else body_t<COW_M>(p);
}

void make_items(const Options& o, std::vector<Item>& items)
{
    bool thorough = o.tier == "thorough";
    int nform = 0;
    bool force_timed = false;
    auto add = [&](std::vector<std::vector<int>> ws, std::vector<Reader> rs, int Pq, int Pt) {
        Prog p{ws, rs};
        for (auto& r : rs)
            if (r.form >= 2) p.timed_mutex = true;  // the timed forms go with a timed mutex
        if (force_timed) p.timed_mutex = true;
        Item it;
        it.name = text(p);
        it.body = [p] { body(p); };
#ifdef MODE_C14
        if (Pq > 2) Pq = 2;  // the read-side oracles of C14 fire at the blocking call itself; C04 explores these programs deeper
#endif
        it.bounds = hx::tier_bounds(o, Pq, Pt);
        items.push_back(it);
    };
    auto form = [&]() { return nform++ % 4; };
    auto wseq = hx::sequences(thorough ? 4 : 3, 2);
    // one writer (all op sequences), one reader
    for (auto& w : wseq)
        for (int snaps = 1; snaps <= 2; snaps++) add({w}, {Reader{snaps, form(), snaps == 2}}, 3, 3);
    // two writers, one op each, with and without a reader
    for (int a = 0; a < 3; a++)
        for (int b = a; b < 3; b++) {
            add({{a}, {b}}, {}, 3, 4);
            add({{a}, {b}}, {Reader{2, form(), true}}, 3, 3);
        }
    add({{MOVE_CANCEL}, {COMMIT}}, {Reader{1, 0, false}}, 3, 3);
    add({{MOVE_CANCEL, COMMIT}}, {Reader{2, 1, true}}, 3, 3);
    // the untimed forms on the timed-mutex instantiation too
    force_timed = true;
    add({{COMMIT}, {COMMIT}}, {Reader{2, 0, true}}, 3, 3);
    add({{COMMIT, CANCEL}}, {Reader{2, 1, false}}, 3, 3);
    force_timed = false;
    add({{UNWIND_COMMIT}, {COMMIT}}, {Reader{2, 0, true}}, 3, 3);
    add({{UNWIND_COMMIT, UNWIND_COMMIT}}, {Reader{2, 1, false}}, 3, 3);
    // two readers against a committing writer
    add({{COMMIT}}, {Reader{1, 0, false}, Reader{2, 1, true}}, 3, 3);
    add({{COMMIT, COMMIT}}, {Reader{2, 2, true}, Reader{1, 3, false}}, 3, 3);
    if (thorough) {
        // systematic: every pair of writer op sequences (<= 2 ops each) x reader kinds
        std::vector<std::vector<Reader>> rsets = {{}, {Reader{1, 0, false}}, {Reader{2, 1, true}}, {Reader{2, 2, false}},
                                                  {Reader{1, 3, false}, Reader{2, 0, true}}};
        for (size_t a = 0; a < wseq.size(); a++)
            for (size_t b = a; b < wseq.size(); b++)
                for (auto& rs : rsets) {
                    if (wseq[a].size() + wseq[b].size() == 4 && rs.size() == 2) continue;
                    add({wseq[a], wseq[b]}, rs, 2, 6);
                }
        add({{COMMIT}, {COMMIT}, {COMMIT}}, {}, 2, 3);
        add({{COMMIT}, {CANCEL}, {MOVE_COMMIT}}, {Reader{1, 0, false}}, 2, 2);
        add({{COMMIT, COMMIT}, {COMMIT}}, {Reader{2, 0, true}}, 2, 3);
        add({{COMMIT, CANCEL}, {MOVE_COMMIT, COMMIT}}, {Reader{2, 1, true}}, 2, 2);
        add({{COMMIT}, {COMMIT}}, {Reader{2, 0, true}, Reader{2, 0, false}}, 2, 2);
    }
}
}  // namespace

int main(int argc, char** argv)
{
#ifdef MODE_C14
    return run_main(argc, argv, "C14", "C14_cow", make_items);
#else
    return run_main(argc, argv, "C04", "C04", make_items);
#endif
}
