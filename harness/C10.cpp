// C10: Latch opens exactly when the count is reached and never loses a wake-up
#include <algorithm>
#include "common.h"
#include "gmlc/concurrency/Latch.hpp"

using gmlc::concurrency::Latch;
using namespace mcrt;

namespace {
enum { W = 0, A = 1, X = 2 };  // wait, arrive, arrive_and_wait
const char* opn[] = {"wait", "arrive", "arrive_and_wait"};

// ghost state (plain, outside the arena)
int g_arr_invoked;
int g_arr_returned;

struct Prog {
    int count;
    std::vector<std::vector<int>> threads;
};

std::string text(const Prog& p)
{
    std::string s = "Latch(" + std::to_string(p.count) + ")";
    for (auto& t : p.threads) {
        s += " | ";
        for (size_t i = 0; i < t.size(); i++) s += std::string(i ? ";" : "") + opn[t[i]];
    }
    return s;
}

// reference: does every thread finish under the specification?
bool spec_completes(const Prog& p)
{
    std::vector<size_t> pc(p.threads.size(), 0);
    int arrivals = 0;
    bool progress = true;
    while (progress) {
        progress = false;
        for (size_t t = 0; t < p.threads.size(); t++) {
            while (pc[t] < p.threads[t].size()) {
                int op = p.threads[t][pc[t]];
                if (op == A) {
                    arrivals++;
                } else if (op == X) {
                    arrivals++;
                    // model X as arrive then wait: split by rewriting in place
                    if (arrivals < p.count) {
                        // still needs to wait: convert remaining to a wait marker
                        const_cast<std::vector<int>&>(p.threads[t])[pc[t]] = W;
                        progress = true;
                        break;
                    }
                } else if (arrivals < p.count) {
                    break;
                }
                pc[t]++;
                progress = true;
            }
        }
    }
    for (size_t t = 0; t < p.threads.size(); t++)
        if (pc[t] < p.threads[t].size()) return false;
    return true;
}

void body(const Prog& p)
{
    g_arr_invoked = 0;
    g_arr_returned = 0;
    Latch* L = new Latch(p.count);
    const int c = p.count;
    std::vector<int> ids;
    for (auto& ops : p.threads) {
        ids.push_back(spawn([L, ops, c] {
            for (int op : ops) {
                if (op == A) {
                    ++g_arr_invoked;
                    uint64_t cw = my_cond_waits();
                    L->arrive();
                    MC_CHECK(my_cond_waits() == cw, "arrive-waits", "arrive() entered a condition wait");
                    ++g_arr_returned;
                } else if (op == W) {
                    L->wait();
                    MC_CHECK(g_arr_invoked >= c, "early-open",
                             "wait() returned after only %d of %d arrive calls had been invoked", g_arr_invoked, c);
                    observe(100 + g_arr_returned);
                } else {
                    ++g_arr_invoked;
                    L->arrive_and_wait();
                    ++g_arr_returned;
                    MC_CHECK(g_arr_invoked >= c, "early-open",
                             "arrive_and_wait() returned after only %d of %d arrive calls had been invoked",
                             g_arr_invoked, c);
                    observe(200 + g_arr_returned);
                }
            }
        }));
    }
    for (int id : ids) join(id);
    // a future waiter must pass immediately, without blocking
    L->wait();  // must return: nobody is left to notify (deadlock detector)
    delete L;
}

void make_items(const Options& o, std::vector<Item>& items)
{
    bool thorough = o.tier == "thorough";
    auto seqs = hx::sequences(3, 2);
    int maxT = thorough ? 4 : 3;
    for (int T = 2; T <= maxT; T++) {
        hx::multisets((int)seqs.size(), T, [&](const std::vector<int>& idx) {
            for (int c = 1; c <= 3; c++) {
                Prog p;
                p.count = c;
                int arr = 0, waits = 0;
                for (int i : idx) {
                    p.threads.push_back(seqs[i]);
                    for (int op : seqs[i]) {
                        if (op != W) arr++;
                        if (op != A) waits++;
                    }
                }
                if (arr < c || arr > c + 1 || waits == 0) continue;
                if (T == 4 && arr + waits > 6) continue;
                Prog q = p;
                if (!spec_completes(q)) continue;
                Item it;
                it.name = text(p);
                it.body = [p] { body(p); };
                it.bounds = hx::tier_bounds(o, 3, 4);
                it.bounds.S = thorough ? 2 : 1;
                items.push_back(it);
            }
        });
    }
}
}  // namespace

int main(int argc, char** argv)
{
    return run_main(argc, argv, "C10", "C10", make_items);
}
