// C06: deferred_guarded applies each modification once, exclusively, in order
#define HX_MAIN
#include <chrono>
#include <future>
#include <mutex>
#include <optional>
#include <shared_mutex>
#include <stdexcept>
#include "common.h"
#include "gmlc/libguarded/deferred_guarded.hpp"

using namespace mcrt;
using namespace std::chrono_literals;
using hx::Pair;
namespace lg = gmlc::libguarded;

namespace {
enum OpK : uint8_t { DETACH, ASYNC_VAL, ASYNC_VOID, ASYNC_THROW, DETACH_THROW, RD0, RD1, RD2, LOADK, NOPK };
const char* opn[] = {"modify_detach", "modify_async(value)", "modify_async(void)", "modify_async(throws)", "modify_detach(throws)",
                     "shared handle", "shared handle held over next op", "shared handle held over next 2 ops", "load"};
const char* formn[] = {"lock_shared", "try_lock_shared", "try_lock_shared_for", "try_lock_shared_until"};
struct OpI {
    uint8_t k;
    uint8_t form;
};
struct Prog {
    int mtype;
    std::vector<std::vector<OpI>> threads;
    int final_variant;  // 0: lock_shared, 1: modify_detach(nop)
};
const char* mname[] = {"shared_timed_mutex", "shared_mutex", "mutex", "timed_mutex"};

std::string text(const Prog& p)
{
    std::string s = std::string("deferred_guarded<Pair,") + mname[p.mtype] + ">";
    for (auto& t : p.threads) {
        s += " |";
        for (auto& o : t) {
            s += std::string(" ") + opn[o.k];
            if (o.k >= RD0 && o.k <= RD2) s += std::string("[") + formn[o.form] + "]";
        }
    }
    s += p.final_variant ? " || then modify_detach(nop)" : " || then lock_shared()";
    return s;
}

struct TestErr: std::runtime_error {
    TestErr(): std::runtime_error("functor failure") {}
};

// ghost
struct Sub {
    int id;
    int fiber;
    uint8_t kind;
    uint64_t inv, ret;
};
Sub g_sub[16];
int g_nsub;
int g_exec[32];
int g_nexec;
int g_vb;

struct Shared {
    std::future<int> fval[16];
    std::future<void> fvoid[16];
    bool has_val[16] = {false};
    bool has_void[16] = {false};
};

void record_exec(int id)
{
    for (int i = 0; i < g_nexec; i++)
        MC_CHECK(g_exec[i] != id, "executed-twice", "modification #%d was executed twice", id);
    g_exec[g_nexec++] = id;
}

template<class M>
void body_t(const Prog& p)
{
    using DG = lg::deferred_guarded<Pair, M>;
    g_nsub = g_nexec = 0;
    hx::win_reset();
    size_t base_blocks = live_blocks();
    DG* dg = new DG(0);
    Shared* sh = new Shared();
    int next_id = 1;
    int bumps_expected = 0;
    {
        std::vector<int> ids;
        for (auto& ops : p.threads) {
            // assign ids to the submissions of this thread
            std::vector<int> myids;
            for (auto& o : ops) {
                if (o.k <= DETACH_THROW) {
                    myids.push_back(next_id++);
                    if (o.k != ASYNC_THROW && o.k != DETACH_THROW) bumps_expected++;
                } else {
                    myids.push_back(0);
                }
            }
            ids.push_back(spawn([dg, sh, ops, myids] {
                using SH = typename DG::shared_handle;
                std::optional<SH> held;
                int hold_left = 0;
                int held_val = 0;
                for (size_t i = 0; i < ops.size(); i++) {
                    const OpI& o = ops[i];
                    int id = myids[i];
                    auto bump = [id](Pair& x) {
                        record_exec(id);
                        hx::WriteWin w(&x, "deferred modification functor");
                        ++x.a;
                        point();
                        ++x.b;
                    };
                    if (o.k <= DETACH_THROW) {
                        int si = g_nsub++;
                        g_sub[si] = Sub{id, self(), o.k, stamp(), ~uint64_t(0)};
                        if (o.k == DETACH) {
                            dg->modify_detach(bump);
                        } else if (o.k == DETACH_THROW) {
                            // a detached functor that throws: on the direct path the exception reaches the submitter, on
                            // the queued path it is swallowed with the task; either way it runs once and nothing behind
                            // it is lost
                            try {
                                dg->modify_detach([id](Pair& x) {
                                    record_exec(id);
                                    hx::WriteWin w(&x, "deferred modification functor (throwing)");
                                    point();
                                    throw TestErr();
                                });
                            }
                            catch (const TestErr&) {
                                observe(88);
                            }
                        } else if (o.k == ASYNC_VAL) {
                            sh->fval[id] = dg->modify_async([bump, id](Pair& x) {
                                bump(x);
                                return 100 + id;
                            });
                            sh->has_val[id] = true;
                        } else if (o.k == ASYNC_VOID) {
                            sh->fvoid[id] = dg->modify_async([bump](Pair& x) { bump(x); });
                            sh->has_void[id] = true;
                        } else {
                            sh->fval[id] = dg->modify_async([id](Pair& x) -> int {
                                record_exec(id);
                                hx::WriteWin w(&x, "deferred modification functor (throwing)");
                                point();
                                throw TestErr();
                            });
                            sh->has_val[id] = true;
                        }
                        g_sub[si].ret = stamp();
                    } else if (o.k == LOADK) {
                        Pair v = dg->load();
                        MC_CHECK(v.a == v.b, "torn-read", "load() returned a half-written value (a=%d b=%d)", v.a, v.b);
                        observe(50 + (uint64_t)v.a);
                    } else {
                        // reader
                        held.reset();
                        switch (o.form) {
                            case 0: held.emplace(dg->lock_shared()); break;
                            case 1: held.emplace(dg->try_lock_shared()); break;
                            case 2:
                                if constexpr (std::is_same_v<M, std::shared_timed_mutex> || std::is_same_v<M, std::timed_mutex>)
                                    held.emplace(dg->try_lock_shared_for(5ms));
                                else held.emplace(dg->lock_shared());
                                break;
                            default:
                                if constexpr (std::is_same_v<M, std::shared_timed_mutex> || std::is_same_v<M, std::timed_mutex>)
                                    held.emplace(dg->try_lock_shared_until(std::chrono::steady_clock::now() + 5ms));
                                else held.emplace(dg->try_lock_shared());
                                break;
                        }
                        if (!bool(*held)) {
                            held.reset();
                            observe(7);
                            continue;
                        }
                        held_val = hx::read_pair(**held, "reader under shared handle");
                        observe(20 + (uint64_t)held_val);
                        hold_left = o.k - RD0;
                        if (hold_left == 0) held.reset();
                        continue;
                    }
                    // an operation executed while this thread keeps a shared handle
                    if (held) {
                        int v = hx::read_pair(**held, "reader re-reads under held shared handle");
                        MC_CHECK(v == held_val, "changed-under-handle",
                                 "value changed from %d to %d while this thread held a shared handle", held_val, v);
                        if (--hold_left <= 0) held.reset();
                    }
                }
                held.reset();
            }));
        }
        for (int id : ids) join(id);
    }
    // ---- quiescent: no handle is held, every submitter has returned
    int total = next_id - 1;
    if (p.final_variant == 0) {
        auto h = dg->lock_shared();
        MC_CHECK(bool(h), "null-handle", "lock_shared() returned null");
        // access has been granted: every accepted modification must have been applied by now
        MC_CHECK(g_nexec == total, "stranded", "after quiescence and one lock_shared(), %d of %d accepted modifications have run",
                 g_nexec, total);
        int v = hx::read_pair(*h, "final read");
        MC_CHECK(v == bumps_expected, "lost-modification", "final value %d after %d modifications", v, bumps_expected);
    } else {
        bool ran = false;
        dg->modify_detach([&](Pair& x) {
            ran = true;
            MC_CHECK(g_nexec == total, "stranded", "a modification made at quiescence ran before %d pending ones",
                     total - g_nexec);
            hx::WriteWin w(&x, "final functor");
            MC_CHECK(x.a == bumps_expected && x.b == bumps_expected, "lost-modification", "final value (%d,%d) after %d modifications",
                     x.a, x.b, bumps_expected);
        });
        MC_CHECK(ran, "stranded", "modify_detach at quiescence did not run its function");
    }
    // exactly once
    for (int id = 1; id <= total; id++) {
        int cnt = 0;
        for (int i = 0; i < g_nexec; i++) cnt += g_exec[i] == id;
        MC_CHECK(cnt == 1, "not-once", "modification #%d ran %d times", id, cnt);
    }
    // order: program order and real time
    auto pos = [&](int id) {
        for (int i = 0; i < g_nexec; i++)
            if (g_exec[i] == id) return i;
        return -1;
    };
    for (int a = 0; a < g_nsub; a++)
        for (int b = 0; b < g_nsub; b++) {
            if (a == b) continue;
            bool before = g_sub[a].ret < g_sub[b].inv;
            if (before)
                MC_CHECK(pos(g_sub[a].id) < pos(g_sub[b].id), "order",
                         "modification #%d was submitted (and returned) before #%d was submitted, but ran after it",
                         g_sub[a].id, g_sub[b].id);
        }
    // futures
    for (int i = 0; i < g_nsub; i++) {
        int id = g_sub[i].id;
        if (sh->has_val[id]) {
            MC_CHECK(sh->fval[id].valid(), "future-invalid", "modify_async returned an invalid future");
            MC_CHECK(sh->fval[id].wait_for(0s) == std::future_status::ready, "future-not-ready",
                     "future of modification #%d is not ready after quiescence and drain", id);
            if (g_sub[i].kind == ASYNC_THROW) {
                bool threw = false;
                try {
                    (void)sh->fval[id].get();
                }
                catch (const TestErr&) {
                    threw = true;
                }
                MC_CHECK(threw, "future-no-exception", "future of the throwing modification #%d holds no exception", id);
            } else {
                int v = sh->fval[id].get();
                MC_CHECK(v == 100 + id, "future-value", "future of modification #%d holds %d", id, v);
            }
        }
        if (sh->has_void[id]) {
            MC_CHECK(sh->fvoid[id].wait_for(0s) == std::future_status::ready, "future-not-ready",
                     "future of modification #%d is not ready after quiescence and drain", id);
            sh->fvoid[id].get();
        }
    }
    uint64_t o = 0;
    for (int i = 0; i < g_nexec; i++) o = o * 17 + g_exec[i];
    observe(o);
    delete sh;
    delete dg;
    MC_CHECK(live_blocks() == base_blocks, "leak", "%zu arena blocks not freed", live_blocks() - base_blocks);
}

// Two objects of one type: a queued modification of A reads B through B.lock_shared(), i.e. A's drain contains a drain
// of B on the same thread.  Whatever the library shares between objects of one type (or between nested drains of one
// thread) must not mix up their queues: everything runs once, on its own object, nothing is stranded.
template<class M>
void body_two(int variant)
{
    using DG = lg::deferred_guarded<Pair, M>;
    g_nsub = g_nexec = 0;
    g_vb = 0;
    hx::win_reset();
    size_t base_blocks = live_blocks();
    DG* A = new DG(0);
    DG* B = new DG(0);
    int r = spawn([A, B] {
        auto ha = A->lock_shared();
        auto hb = B->lock_shared();
        (void)hx::read_pair(*ha, "reader of A");
        (void)hx::read_pair(*hb, "reader of B");
        point();
    });
    int w = spawn([A, B, variant] {
        B->modify_detach([](Pair& x) {
            record_exec(1);
            hx::WriteWin w(&x, "modification of B");
            ++x.a;
            point();
            ++x.b;
        });
        A->modify_detach([B](Pair& x) {
            record_exec(2);
            hx::WriteWin w(&x, "modification of A reading B");
            int vb = hx::read_pair(*B->lock_shared(), "nested read of B");  // drains B first
            // B's first modification was submitted (by this thread) before this one: it must be visible; in variant 1
            // B's second one may or may not have been submitted yet when this (possibly queued) functor finally runs
            MC_CHECK(vb >= 1 && vb <= 2, "stranded", "B read from inside a modification of A: %d (its earlier modification was not applied)", vb);
            g_vb = vb;
            x.a += vb;
            point();
            x.b += vb;
        });
        if (variant == 1)
            B->modify_detach([](Pair& x) {
                record_exec(4);
                hx::WriteWin w(&x, "second modification of B");
                ++x.a;
                ++x.b;
            });
        A->modify_detach([](Pair& x) {
            record_exec(3);
            hx::WriteWin w(&x, "second modification of A");
            ++x.a;
            point();
            ++x.b;
        });
    });
    join(r);
    join(w);
    int total = variant == 1 ? 5 : 4;
    {
        auto h = A->lock_shared();
        int v = hx::read_pair(*h, "read of A after the first phase");
        MC_CHECK(v == g_vb + 1, "lost-modification", "A is %d after its two modifications (expected %d)", v, g_vb + 1);
    }
    // second phase: the state the first (nested) drain left behind must not disturb a later queued modification of B
    int r2 = spawn([B] {
        auto hb = B->lock_shared();
        (void)hx::read_pair(*hb, "second reader of B");
        point();
    });
    int w2 = spawn([B] {
        B->modify_detach([](Pair& x) {
            record_exec(5);
            hx::WriteWin w(&x, "late modification of B");
            ++x.a;
            point();
            ++x.b;
        });
    });
    join(r2);
    join(w2);
    {
        auto h = A->lock_shared();
        int v = hx::read_pair(*h, "final read of A");
        MC_CHECK(v == g_vb + 1, "lost-modification", "A is %d after its two modifications (expected %d)", v, g_vb + 1);
    }
    {
        auto h = B->lock_shared();
        int v = hx::read_pair(*h, "final read of B");
        MC_CHECK(v == (variant == 1 ? 3 : 2), "lost-modification", "B is %d after its modifications", v);
    }
    MC_CHECK(g_nexec == total, "stranded", "after quiescence and lock_shared() on both objects %d of %d modifications have run",
             g_nexec, total);
    for (int id = 1; id <= 5; id++) {
        if (id == 4 && variant != 1) continue;
        int cnt = 0;
        for (int i = 0; i < g_nexec; i++) cnt += g_exec[i] == id;
        MC_CHECK(cnt == 1, "not-once", "modification #%d ran %d times", id, cnt);
    }
    uint64_t o = 0;
    for (int i = 0; i < g_nexec; i++) o = o * 17 + g_exec[i];
    observe(o);
    delete A;
    delete B;
    MC_CHECK(live_blocks() == base_blocks, "leak", "%zu arena blocks not freed", live_blocks() - base_blocks);
}

void body(const Prog& p)
{
    switch (p.mtype) {
        case 0: body_t<std::shared_timed_mutex>(p); break;
        case 1: body_t<std::shared_mutex>(p); break;
        case 2: body_t<std::mutex>(p); break;
        default: body_t<std::timed_mutex>(p); break;
    }
}

void make_items(const Options& o, std::vector<Item>& items)
{
    bool thorough = o.tier == "thorough";
    std::vector<int> mtypes = thorough ? std::vector<int>{0, 1, 2, 3} : std::vector<int>{0, 2};
    int nprog = 0;
    auto seq2 = hx::sequences(NOPK, 2);
    auto seq1 = hx::sequences(NOPK, 1);
    auto emit = [&](int mt, const std::vector<std::vector<int>>& th, int Pq, int Pt) {
        Prog p;
        p.mtype = mt;
        int subs = 0;
        int fi = nprog;
        for (auto& t : th) {
            std::vector<OpI> ops;
            for (size_t i = 0; i < t.size(); i++) {
                int k = t[i];
                if (k <= DETACH_THROW) subs++;
                // a held handle needs following ops to make sense
                if ((k == RD1 && i + 1 >= t.size()) || (k == RD2 && i + 2 > t.size())) return;
                // a thread must not submit while itself holding a plain (non-shared) mutex: try_lock by the owner is UB
                if ((mt >= 2) && (k == RD1 || k == RD2)) {
                    for (size_t j = i + 1; j < t.size() && j <= i + (k - RD0); j++)
                        if (t[j] <= DETACH_THROW || t[j] == LOADK || (t[j] >= RD0 && t[j] <= RD2)) return;
                }
                // re-acquiring shared access while holding it can self-deadlock with a waiting writer on real
                // rwlocks: not generated
                if (k == RD1 || k == RD2)
                    for (size_t j = i + 1; j < t.size() && j <= i + (k - RD0); j++)
                        if (t[j] == LOADK || (t[j] >= RD0 && t[j] <= RD2)) return;
                ops.push_back(OpI{(uint8_t)k, (uint8_t)((fi++) % 4)});
            }
            p.threads.push_back(ops);
        }
        if (subs == 0 || subs > 4) return;
        p.final_variant = nprog % 2;
        nprog++;
        Item it;
        it.name = text(p);
        it.body = [p] { body(p); };
        it.bounds = hx::tier_bounds(o, Pq, Pt);
        items.push_back(it);
    };
    for (int mt : mtypes) {
        hx::multisets((int)seq2.size(), 2, [&](const std::vector<int>& idx) { emit(mt, {seq2[idx[0]], seq2[idx[1]]}, 2, 3); });
        hx::multisets((int)seq1.size(), 3, [&](const std::vector<int>& idx) {
            emit(mt, {seq1[idx[0]], seq1[idx[1]], seq1[idx[2]]}, 2, 3);
        });
        for (int variant : {0, 1}) {
            Item it;
            it.name = std::string("two deferred_guarded<Pair,") + mname[mt] + "> objects | reader holds shared handles on A and B | B.modify_detach, " +
                      "A.modify_detach(reads B through lock_shared: nested drain)" + (variant ? ", B.modify_detach" : "") +
                      ", A.modify_detach || lock_shared(A) || second reader of B | B.modify_detach || then lock_shared() on both";
            it.body = [mt, variant] {
                switch (mt) {
                    case 0: body_two<std::shared_timed_mutex>(variant); break;
                    case 1: body_two<std::shared_mutex>(variant); break;
                    case 2: body_two<std::mutex>(variant); break;
                    default: body_two<std::timed_mutex>(variant); break;
                }
            };
            it.bounds = hx::tier_bounds(o, 3, 4);
            items.push_back(it);
        }
        if (!thorough) {
            // quick: a reader, a submitter of one and a submitter of two modifications (two queued + one direct)
            for (int r : {RD0, LOADK})
                for (int a : {DETACH, ASYNC_VAL})
                    for (int b : {DETACH, ASYNC_VAL})
                        for (int c : {DETACH, ASYNC_VAL}) emit(mt, {{b, c}, {r}, {a}}, 3, 3);
        }
        if (thorough) {
            // three threads, one with two operations
            hx::multisets((int)seq1.size(), 2, [&](const std::vector<int>& idx) {
                for (auto& s : seq2)
                    if (s.size() == 2) emit(mt, {s, seq1[idx[0]], seq1[idx[1]]}, 2, 2);
            });
        }
    }
}
}  // namespace

int main(int argc, char** argv)
{
    return run_main(argc, argv, "C06", "C06", make_items);
}
