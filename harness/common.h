// common.h: shared harness conventions (DESIGN.md section 3)
#pragma once
#include <algorithm>
#include <cstdio>
#include <cstring>
#include <functional>
#include <string>
#include <vector>

#include "mcrt.h"

namespace hx {

// enumerate all multisets of size T over indices [0,n) (non-decreasing tuples):
// thread-symmetric programs are generated once.
inline void multisets(int n, int T, const std::function<void(const std::vector<int>&)>& f)
{
    std::vector<int> cur(T, 0);
    std::function<void(int, int)> rec = [&](int pos, int lo) {
        if (pos == T) {
            f(cur);
            return;
        }
        for (int i = lo; i < n; i++) {
            cur[pos] = i;
            rec(pos + 1, i);
        }
    };
    rec(0, 0);
}

// all sequences over alphabet size a with length in [1, maxlen]
inline std::vector<std::vector<int>> sequences(int a, int maxlen)
{
    std::vector<std::vector<int>> out;
    std::vector<int> cur;
    std::function<void()> rec = [&]() {
        if (!cur.empty()) out.push_back(cur);
        if ((int)cur.size() == maxlen) return;
        for (int i = 0; i < a; i++) {
            cur.push_back(i);
            rec();
            cur.pop_back();
        }
    };
    rec();
    // shortest first
    std::stable_sort(out.begin(), out.end(),
                     [](const std::vector<int>& x, const std::vector<int>& y) { return x.size() < y.size(); });
    return out;
}

// Address of the mutex / rwlock that `probe` acquires last (nullptr if it acquires none). Lets a harness talk
// about "the wrapper's lock" in lock-model queries without naming a private member of the library.
template<class F>
inline const void* probe_lock(F&& probe)
{
    uint64_t before = mcrt::my_lock_ops();
    probe();
    return mcrt::my_lock_ops() != before ? mcrt::last_lock_acquired() : nullptr;
}

inline mcrt::Bounds tier_bounds(const mcrt::Options& o, int Pq, int Pt)
{
    mcrt::Bounds b;
    b.P = (o.tier == "thorough") ? Pt : Pq;
    b.S = (o.tier == "thorough") ? 2 : 1;
    b.R = (o.tier == "thorough") ? 2 : 1;
    b.W = 1;
    return b;
}

}  // namespace hx

// ---------------------------------------------------------------------------
// Ghost access windows (DESIGN.md section 3): overlap of a WRITE window with any
// other window of another fiber on the same object is a violation.
namespace hx {

struct WinSlot {
    const void* addr;
    int readers[8];
    int writers[8];
};
extern WinSlot g_win[32];
extern int g_nwin;
extern uint64_t g_win_shared_reads;  // times two READ windows of different fibers were open at once

inline void win_reset()
{
    g_nwin = 0;
    g_win_shared_reads = 0;
}
inline WinSlot& win_of(const void* a)
{
    for (int i = 0; i < g_nwin; i++)
        if (g_win[i].addr == a) return g_win[i];
    if (g_nwin >= 32) mcrt::fail("INTERNAL", "too many window objects");
    WinSlot& w = g_win[g_nwin++];
    w.addr = a;
    memset(w.readers, 0, sizeof w.readers);
    memset(w.writers, 0, sizeof w.writers);
    return w;
}
inline void win_open(const void* a, bool write, const char* what)
{
    WinSlot& w = win_of(a);
    int me = mcrt::self();
    for (int t = 0; t < 8; t++) {
        if (t == me) continue;
        if (w.writers[t] > 0)
            mcrt::fail("overlap", "%s: fiber %d starts a %s access to the protected object while fiber %d is inside a "
                       "write access to it", what, me, write ? "write" : "read", t);
        if (write && w.readers[t] > 0)
            mcrt::fail("overlap", "%s: fiber %d starts a write access to the protected object while fiber %d is inside "
                       "a read access to it", what, me, t);
        if (!write && w.readers[t] > 0) g_win_shared_reads++;
    }
    (write ? w.writers : w.readers)[me]++;
}
inline void win_close(const void* a, bool write)
{
    WinSlot& w = win_of(a);
    (write ? w.writers : w.readers)[mcrt::self()]--;
}
struct ReadWin {
    const void* a;
    explicit ReadWin(const void* p, const char* what = "read"): a(p) { win_open(a, false, what); }
    ~ReadWin() { win_close(a, false); }
};
struct WriteWin {
    const void* a;
    explicit WriteWin(const void* p, const char* what = "write"): a(p) { win_open(a, true, what); }
    ~WriteWin() { win_close(a, true); }
};

// Payload whose move constructor empties its source: a wrapper constructed from an rvalue must end up with the
// value in every internal copy (a constructor that forwards the same rvalue twice does not).
struct MPair {
    int a, b;
    explicit MPair(int v): a(v), b(v) {}
    MPair(const MPair& o): a(o.a), b(o.b) {}
    MPair(MPair&& o) noexcept: a(o.a), b(o.b) { o.a = o.b = -7777; }
    MPair& operator=(const MPair& o)
    {
        a = o.a;
        b = o.b;
        return *this;
    }
};

// fault-injection sites used by payload operations (C20)
enum Site { SITE_COPY = 0, SITE_ASSIGN = 1, SITE_EQ = 2, SITE_FUNC = 3, SITE_PRED = 4, SITE_CALLBACK = 5, SITE_FUNC2 = 6, SITE_ALLOC = 7, SITE_CTOR = 8 };

// Multi-word payload with invariant a == b whose torn state is observable and
// whose operations contain scheduling points.
extern bool g_no_faults;  // set while the harness itself (not client code) copies a payload
struct Pair {
    int a, b;
    Pair(): a(0), b(0) {}
    explicit Pair(int v): a(v), b(v) {}
    Pair(const Pair& o)
    {
        if (!g_no_faults) mcrt::may_throw(SITE_COPY);
        ReadWin r(&o, "copy-construct (source)");
        a = o.a;
        mcrt::point();
        b = o.b;
    }
    Pair& operator=(const Pair& o)
    {
        if (!g_no_faults) mcrt::may_throw(SITE_ASSIGN);
        WriteWin w(this, "assignment (target)");
        ReadWin r(&o, "assignment (source)");
        a = o.a;
        mcrt::point();
        b = o.b;
        return *this;
    }
    bool operator==(const Pair& o) const
    {
        if (!g_no_faults) mcrt::may_throw(SITE_EQ);
        ReadWin r1(this, "compare"), r2(&o, "compare");
        bool x = (a == o.a);
        mcrt::point();
        return x && b == o.b;
    }
    ~Pair() { a = b = -559038737; }
    bool ok() const { return a == b; }
};

// read a Pair through a handle/reference the way a client would
inline int read_pair(const Pair& p, const char* what)
{
    ReadWin r(&p, what);
    int x = p.a;
    mcrt::point();
    int y = p.b;
    MC_CHECK(x == y, "torn-read", "%s: observed a half-written value (a=%d, b=%d)", what, x, y);
    return x;
}
inline void bump_pair(Pair& p, const char* what)
{
    WriteWin w(&p, what);
    ++p.a;
    mcrt::point();
    ++p.b;
}

}  // namespace hx

#ifdef HX_MAIN
namespace hx {
WinSlot g_win[32];
int g_nwin;
uint64_t g_win_shared_reads;
bool g_no_faults = false;
}  // namespace hx
#endif
