// common.h: shared harness conventions (DESIGN.md section 3)
#pragma once
#include <cstdio>
#include <cstring>
#include <functional>
#include <string>
#include <vector>

#include "mcrt.h"

namespace hx {

// enumerate all multisets of size T over indices [0,n) (non-decreasing tuples):
// thread-symmetric programs are generated once.
inline void multisets(int n, int T, const std::function<void(const std::vector<int>&)>& f)
{
    std::vector<int> cur(T, 0);
    std::function<void(int, int)> rec = [&](int pos, int lo) {
        if (pos == T) {
            f(cur);
            return;
        }
        for (int i = lo; i < n; i++) {
            cur[pos] = i;
            rec(pos + 1, i);
        }
    };
    rec(0, 0);
}

// all sequences over alphabet size a with length in [1, maxlen]
inline std::vector<std::vector<int>> sequences(int a, int maxlen)
{
    std::vector<std::vector<int>> out;
    std::vector<int> cur;
    std::function<void()> rec = [&]() {
        if (!cur.empty()) out.push_back(cur);
        if ((int)cur.size() == maxlen) return;
        for (int i = 0; i < a; i++) {
            cur.push_back(i);
            rec();
            cur.pop_back();
        }
    };
    rec();
    // shortest first
    std::stable_sort(out.begin(), out.end(),
                     [](const std::vector<int>& x, const std::vector<int>& y) { return x.size() < y.size(); });
    return out;
}

inline mcrt::Bounds tier_bounds(const mcrt::Options& o, int Pq, int Pt)
{
    mcrt::Bounds b;
    b.P = (o.tier == "thorough") ? Pt : Pq;
    b.S = (o.tier == "thorough") ? 2 : 1;
    b.R = (o.tier == "thorough") ? 2 : 1;
    b.W = 1;
    return b;
}

}  // namespace hx
