// rcu.cpp: rcu_guarded<rcu_list<...>> harness.
//   default / -DMODE_C05 : reclamation safety (C05)
//   -DMODE_C12           : traversal consistency + writer serialisation (C12)
//   -DMODE_C13           : exactly-once destroy/free accounting (C13)
//   -DMODE_C14           : read-side non-blocking (C14)
#define HX_MAIN
#include <list>
#include <optional>
#include <string>
#include "common.h"
#include "gmlc/libguarded/rcu_guarded.hpp"
#include "gmlc/libguarded/rcu_list.hpp"

using namespace mcrt;

namespace {

// ---------------------------------------------------------------- elements
struct Val {  // trivially destructible two-word element
    int v;
    int chk;
    Val(int x = 0): v(x), chk(~x) {}
};
int g_instances;
struct Tracked {  // non-trivial element with canary and instance counter
    int v;
    int chk;
    Tracked* self;
    explicit Tracked(int x = 0): v(x), chk(~x), self(this) { ++g_instances; }
    Tracked(const Tracked& o): v(o.v), chk(o.chk), self(this) { ++g_instances; }
    Tracked(Tracked&& o) noexcept: v(o.v), chk(o.chk), self(this) { ++g_instances; }
    Tracked& operator=(const Tracked& o)
    {
        v = o.v;
        chk = o.chk;
        return *this;
    }
    ~Tracked()
    {
        MC_CHECK(self == this, "destroy-garbage", "element destructor ran on memory that does not hold a live element");
        self = nullptr;
        --g_instances;
        MC_CHECK(g_instances >= 0, "double-destroy", "more element destructions than constructions");
    }
};

// ---------------------------------------------------------------- counting allocator
struct ARec {
    void* p;
    uint8_t allocated, constructed, kind;
};
ARec g_arec[128];
int g_narec;
int g_alloc_calls, g_dealloc_calls, g_construct_calls, g_destroy_calls;
bool g_faults_armed;

ARec* arec_find(void* p)
{
    for (int i = g_narec - 1; i >= 0; --i)
        if (g_arec[i].p == p) return &g_arec[i];
    return nullptr;
}

template<class T>
struct CountingAlloc {
    using value_type = T;
    // a data member makes this a *stateful* allocator (is_always_equal is false): code paths that treat stateful
    // allocators differently are exercised
    int pool_id = 1;
    CountingAlloc() = default;
    template<class U>
    CountingAlloc(const CountingAlloc<U>& o) noexcept: pool_id(o.pool_id)
    {
    }
    T* allocate(size_t n)
    {
        if (g_faults_armed) mcrt::may_throw(hx::SITE_ALLOC);  // allocation failure (fault enumeration, C13)
        void* p = ::operator new(n * sizeof(T));
        if (g_narec >= 128) fail("INTERNAL", "allocation table full");
        g_arec[g_narec++] = ARec{p, 1, 0, (uint8_t)(sizeof(T) % 251)};
        ++g_alloc_calls;
        return static_cast<T*>(p);
    }
    void deallocate(T* p, size_t)
    {
        ++g_dealloc_calls;
        if (p == nullptr) fail("null-deallocate", "deallocate(nullptr) called: memory that was never allocated is being released");
        ARec* r = arec_find(p);
        if (!r || !r->allocated) fail("bad-deallocate", "deallocate of a pointer that is not currently allocated (double free?)");
        if (r->constructed) fail("dealloc-live", "deallocate of storage whose object was never destroyed");
        r->allocated = 0;
        ::operator delete(p);
    }
    template<class U, class... Args>
    void construct(U* p, Args&&... args)
    {
        ARec* r = arec_find(p);
        if (!r || !r->allocated || r->constructed) fail("bad-construct", "construct on storage that is not fresh");
        // the element's constructor throws (fault enumeration, C13); constructors declared noexcept cannot
        if constexpr (!std::is_nothrow_constructible<U, Args...>::value)
            if (g_faults_armed) mcrt::may_throw(hx::SITE_CTOR);
        ::new ((void*)p) U(std::forward<Args>(args)...);
        ++g_construct_calls;  // (a constructor that threw has not constructed anything)
        r->constructed = 1;
    }
    template<class U>
    void destroy(U* p)
    {
        ++g_destroy_calls;
        if (p == nullptr) fail("null-destroy", "destroy(nullptr) called: an object that was never constructed is being destroyed");
        ARec* r = arec_find(p);
        if (!r || !r->allocated || !r->constructed)
            fail("bad-destroy", "destroy of an object that is not currently constructed (double destroy / never constructed)");
        p->~U();
        r->constructed = 0;
    }
    template<class U>
    bool operator==(const CountingAlloc<U>& o) const
    {
        return pool_id == o.pool_id;
    }
    template<class U>
    bool operator!=(const CountingAlloc<U>& o) const
    {
        return pool_id != o.pool_id;
    }
};

#if defined(MODE_C13) && defined(ELEM_STRING)
// std::string elements with heap-allocated contents: destroying a never-constructed or already
// destroyed string frees a wild / freed pointer, which the arena reports
struct StrElem {
    std::string s;
    int v;
    int chk;
    explicit StrElem(int x = 0): s("element_with_a_heap_allocated_string_" + std::to_string(x)), v(x), chk(~x) {}
};
using Elem = StrElem;
using List = gmlc::libguarded::rcu_list<Elem, std::mutex, CountingAlloc<Elem>>;
#elif defined(MODE_C13)
using Elem = Tracked;
using List = gmlc::libguarded::rcu_list<Elem, std::mutex, CountingAlloc<Elem>>;
#elif defined(ALLOC_FAULTS) || defined(STATEFUL_ALLOC)
// C05 programs with an allocator whose allocations may fail (fault enumeration); C14 programs over a stateful allocator
using Elem = Val;
using List = gmlc::libguarded::rcu_list<Elem, std::mutex, CountingAlloc<Elem>>;
#else
using Elem = Val;
using List = gmlc::libguarded::rcu_list<Elem>;
#endif
using RG = gmlc::libguarded::rcu_guarded<List>;

// ---------------------------------------------------------------- programs
enum OpK : uint8_t {
    H_R, H_W, REL, BEGIN, NEXT, DEREF, TRAV, ERASE_CUR, ERASE_AGAIN, AWAIT_MUT, PUSH_F, PUSH_B, EMPL_F, EMPL_B, NOPK
};
const char* opk[] = {"lock_read", "lock_write", "release", "begin", "++it", "*it", "traverse", "erase(it)",
                     "erase(same it)", "(wait until another thread has completed a mutation)", "push_front", "push_back", "emplace_front", "emplace_back"};
struct Op {
    uint8_t k;
    int arg;
};
using TProg = std::vector<Op>;
struct Prog {
    int prefill;
    std::vector<TProg> threads;
    bool destroy_with_handles_released = true;
};

std::string text(const Prog& p)
{
    std::string s = "rcu_list prefilled [1.." + std::to_string(p.prefill) + "]";
    for (auto& t : p.threads) {
        s += " |";
        for (auto& o : t) {
            s += std::string(" ") + opk[o.k];
            if (o.k >= PUSH_F) s += "(" + std::to_string(o.arg) + ")";
        }
    }
    return s;
}

// ---------------------------------------------------------------- ghost logs
struct HandleRec {
    int fiber;
    uint64_t first_ret;
    bool alive;
};
struct ErasedRec {
    const void* addr;
    uint64_t erase_inv;
    int value;
};
struct MutRec {
    uint8_t kind;  // PUSH_F.. or ERASE_CUR
    int value;
    uint64_t acq_seq;
    uint64_t inv, ret;
    bool noop;
    bool maybe = false;  // failed with an injected allocation failure: may or may not have taken effect
    int fiber = -1;
};
struct TravRec {
    uint64_t inv, ret;
    int n;
    int vals[12];
    int fiber;
};
HandleRec g_handles[32];
int g_nhandles;
ErasedRec g_erased[16];
int g_nerased;
MutRec g_muts[32];
int g_nmuts;
TravRec g_travs[16];
int g_ntravs;

void ghost_reset()
{
    g_nhandles = g_nerased = g_nmuts = g_ntravs = 0;
    g_instances = 0;
    g_narec = 0;
    g_faults_armed = false;
    g_alloc_calls = g_dealloc_calls = g_construct_calls = g_destroy_calls = 0;
}

// C05, taken literally from the statement: no erased node may be freed while a handle
// whose first access returned before that erase was invoked is still alive.
void check_protected(const char* when)
{
    for (int h = 0; h < g_nhandles; h++) {
        if (!g_handles[h].alive) continue;
        for (int e = 0; e < g_nerased; e++) {
            if (g_handles[h].first_ret < g_erased[e].erase_inv && is_freed(g_erased[e].addr))
                fail("premature-free",
                     "%s: node of erased value %d has been freed while the handle of fiber %d, in use since before "
                     "that erase, is still alive",
                     when, g_erased[e].value, g_handles[h].fiber);
        }
    }
}

int read_elem(const Elem& e)
{
    int v = e.v;
    point();
    int c = e.chk;
    MC_CHECK(c == ~v, "garbage-element", "element reads as garbage (v=%d chk=%d): freed or never constructed", v, c);
    return v;
}

struct Interp {
    RG* rg;
    std::optional<RG::read_handle> rh;
    std::optional<RG::write_handle> wh;
    List::const_iterator it, prev_it;
    bool have_it = false, have_prev = false;
    int hrec = -1;
    // sequential reference (used when the program has a single thread)
    bool solo = false;
    std::vector<int> ref;
    int expect = -1;  // value `it` must denote; -1 = end
    int succ(int v) const
    {
        for (size_t i = 0; i < ref.size(); i++)
            if (ref[i] == v) return i + 1 < ref.size() ? ref[i + 1] : -1;
        return -1;
    }
    void check_it(const char* when)
    {
        if (!solo || !have_it || poisoned) return;
        if (expect < 0) {
            MC_CHECK(at_end(), "iterator-position", "%s: iterator should be at the end but is not", when);
        } else {
            MC_CHECK(!at_end(), "iterator-position", "%s: iterator is at the end but should denote %d", when, expect);
            MC_CHECK(it->v == expect, "iterator-position", "%s: iterator denotes %d, the reference list says %d", when,
                     it->v, expect);
        }
    }

    bool has_handle() const { return rh.has_value() || wh.has_value(); }
    void first_access_done()
    {
        if (hrec >= 0 && g_handles[hrec].first_ret == ~uint64_t(0)) g_handles[hrec].first_ret = stamp();
    }
    List::const_iterator do_begin()
    {
#ifdef MODE_C14
        noblock_begin("rcu read-side: first access / begin()", 64);
#endif
        List::const_iterator r;
        if (rh) r = (*rh)->begin();
        else r = (*wh)->begin();
#ifdef MODE_C14
        noblock_end();
#endif
        first_access_done();
        return r;
    }
    bool at_end()
    {
        bool a = (it == List::end_iterator());
        bool b = (List::end_iterator() == it);  // the comparison exists in both directions
        MC_CHECK(a == b && a == !(it != List::end_iterator()) && a == !(List::end_iterator() != it), "iterator-compare",
                 "iterator / end comparisons disagree");
        return a;
    }
    void step()
    {
#ifdef MODE_C14
        noblock_begin("rcu read-side: iterator advance", 24);
#endif
        // both increment forms of the iterators are part of the API
        if ((nsteps++ & 1) == 0) ++it;
        else it++;
#ifdef MODE_C14
        noblock_end();
#endif
    }
    int nsteps = 0;

    void run_op(const Op& o)
    {
        switch (o.k) {
            case H_R:
#ifdef MODE_C14
                noblock_begin("rcu read-side: lock_read()", 24);
#endif
                rh.emplace(rg->lock_read());
#ifdef MODE_C14
                noblock_end();
#endif
                hrec = g_nhandles++;
                g_handles[hrec] = HandleRec{self(), ~uint64_t(0), true};
                have_it = false;
                break;
            case H_W:
                wh.emplace(rg->lock_write());
                hrec = g_nhandles++;
                g_handles[hrec] = HandleRec{self(), ~uint64_t(0), true};
                have_it = false;
                break;
            case REL:
                if (!has_handle()) break;
                check_protected("before handle release");
                stamp();
                g_handles[hrec].alive = false;  // the handle stops protecting when release begins
                rh.reset();
                wh.reset();
                hrec = -1;
                have_it = have_prev = false;
                break;
            case BEGIN:
                if (!has_handle()) break;
                it = do_begin();
                have_it = true;
                expect = ref.empty() ? -1 : ref.front();
                check_it("begin()");
                break;
            case NEXT:
                if (!have_it || at_end()) break;
                step();
                expect = succ(expect);
                check_it("++it");
                break;
            case DEREF:
                if (!have_it || at_end()) break;
                observe(1000 + (uint64_t)read_elem(*it));
                break;
            case TRAV: {
                if (!has_handle()) break;
                TravRec tr;
                tr.fiber = self();
                tr.n = 0;
                tr.inv = stamp();
                it = do_begin();
                have_it = true;
                while (!at_end()) {
                    int v = read_elem(*it);
                    if (tr.n < 12) tr.vals[tr.n++] = v;
                    else fail("endless-traversal", "traversal visited more than 12 elements (cycle?)");
                    point();
                    check_protected("during traversal");
                    step();
                }
                tr.ret = stamp();
                expect = -1;
                if (solo && !poisoned) {
                    MC_CHECK(tr.n == (int)ref.size(), "traversal-contents", "traversal returned %d elements, reference has %zu",
                             tr.n, ref.size());
                    for (int i = 0; i < tr.n; i++)
                        MC_CHECK(tr.vals[i] == ref[i], "traversal-contents", "traversal element %d is %d, reference says %d", i,
                                 tr.vals[i], ref[i]);
                }
                uint64_t h = 0;
                for (int i = 0; i < tr.n; i++) h = h * 31 + tr.vals[i];
                observe(h);
                g_travs[g_ntravs++] = tr;
                break;
            }
            case ERASE_CUR: {
                if (!wh || !have_it || at_end()) break;
                int v = it->v;
                const void* addr = &*it;
                bool already = false;
                for (int e = 0; e < g_nerased; e++)
                    if (g_erased[e].addr == addr) already = true;
                MutRec m;
                m.kind = ERASE_CUR;
                m.value = v;
                m.inv = stamp();
                pending = m;
                have_pending = true;
                if (!already) g_erased[g_nerased++] = ErasedRec{addr, m.inv, v};
                prev_it = it;
                have_prev = true;
                List::iterator nx = (*wh)->erase(it);
                first_access_done();
                m.acq_seq = last_acquire_seq();
                m.ret = stamp();
                m.noop = false;
                m.fiber = self(); g_muts[g_nmuts++] = m;
                have_pending = false;
                it = nx;
                if (solo) {
                    int nxv = succ(v);
                    ref.erase(std::remove(ref.begin(), ref.end(), v), ref.end());
                    expect = nxv;
                    check_it("iterator returned by erase()");
                }
                break;
            }
            case AWAIT_MUT: {
                int mine = self();
                await([mine] {
                    for (int i = 0; i < g_nmuts; i++)
                        if (g_muts[i].fiber != mine) return true;
                    return false;
                });
                break;
            }
            case ERASE_AGAIN: {
                if (!wh || !have_prev) break;
                MutRec m;
                m.kind = ERASE_CUR;
                m.value = prev_it->v;
                m.inv = stamp();
                (*wh)->erase(prev_it);
                m.acq_seq = last_acquire_seq();
                m.ret = stamp();
                m.noop = true;
                m.fiber = self(); g_muts[g_nmuts++] = m;
                break;
            }
            case PUSH_F:
            case PUSH_B:
            case EMPL_F:
            case EMPL_B: {
                if (!wh) break;
                MutRec m;
                m.kind = o.k;
                m.value = o.arg;
                m.inv = stamp();
                pending = m;
                have_pending = true;
                if (o.k == PUSH_F) (*wh)->push_front(Elem(o.arg));
                else if (o.k == PUSH_B) (*wh)->push_back(Elem(o.arg));
                else if (o.k == EMPL_F) (*wh)->emplace_front(o.arg);
                else (*wh)->emplace_back(o.arg);
                first_access_done();
                m.acq_seq = last_acquire_seq();
                m.ret = stamp();
                m.noop = false;
                m.fiber = self(); g_muts[g_nmuts++] = m;
                have_pending = false;
                if (o.k == PUSH_F || o.k == EMPL_F) ref.insert(ref.begin(), o.arg);
                else ref.push_back(o.arg);
                break;
            }
            default:
                break;
        }
        check_protected("after operation");
    }

    // re-derive the sequential reference from the list itself (after an operation failed with an
    // injected allocation failure it may or may not have taken effect)
    void resync()
    {
        if (!solo || !has_handle()) return;
        ref.clear();
        List::const_iterator i = rh ? (*rh)->begin() : (*wh)->begin();
        int n = 0;
        for (; !(i == List::end_iterator()); ++i) {
            ref.push_back(i->v);
            MC_CHECK(++n <= 12, "endless-traversal", "list is cyclic after a failed operation");
        }
        have_it = have_prev = false;
    }

    void run(const Op& o)
    {
        try {
            run_op(o);
        }
        catch (const mcrt::Injected&) {
            // an allocation failed inside the operation: it must leave the list usable and leak nothing
            // (checked at the end); whether it took effect is read back from the list
            observe(4242);
            failed_ops++;
            if (have_pending) {
                pending.acq_seq = last_acquire_seq();
                pending.ret = stamp();
                pending.noop = false;
                pending.maybe = true;
                pending.fiber = self(); g_muts[g_nmuts++] = pending;
                have_pending = false;
            }
            if (o.k == H_R || o.k == H_W) {
                // the handle object exists, its registration failed: nothing to undo
            }
            try {
                resync();
            }
            catch (const mcrt::Injected&) {
                // the resynchronising traversal's own registration failed
                have_it = have_prev = false;
                rh.reset();
                wh.reset();
                if (hrec >= 0) g_handles[hrec].alive = false;
                hrec = -1;
                poisoned = true;
            }
        }
    }
    int failed_ops = 0;
    MutRec pending;
    bool have_pending = false;
    bool poisoned = false;  // reference unknown: stop comparing
};

// reference: the effective mutations applied one at a time, in writer-lock acquisition order when
// every one of them acquired the lock (the usual case), otherwise in ANY order that respects each
// thread's own order (brute force) - the statement only asks for "some sequential execution".
bool g_ref_ok;
struct RefVerdict {
    bool ok;
    char msg[400];
};
static RefVerdict check_order(const Prog& p, const std::vector<MutRec>& ms, const std::vector<int>& final_contents)
{
    RefVerdict v;
    v.ok = true;
    v.msg[0] = 0;
    std::list<int> ref, all;  // `all` ignores erases: position order of everything ever inserted
    for (int x = 1; x <= p.prefill; x++) {
        ref.push_back(x);
        all.push_back(x);
    }
    for (auto& m : ms) {
        if (m.kind == PUSH_F || m.kind == EMPL_F) {
            ref.push_front(m.value);
            all.push_front(m.value);
        } else if (m.kind == PUSH_B || m.kind == EMPL_B) {
            ref.push_back(m.value);
            all.push_back(m.value);
        } else {
            ref.remove(m.value);
        }
    }
    std::vector<int> refv(ref.begin(), ref.end());
    if (refv != final_contents) {
        std::string a, b;
        for (int x : refv) a += std::to_string(x) + " ";
        for (int x : final_contents) b += std::to_string(x) + " ";
        v.ok = false;
        snprintf(v.msg, sizeof v.msg, "final-contents|final list contents [%s] differ from the sequential execution [%s]", b.c_str(), a.c_str());
        return v;
    }
    std::vector<int> order(all.begin(), all.end());
    auto rank = [&](int x) {
        for (size_t i = 0; i < order.size(); i++)
            if (order[i] == x) return (int)i;
        return -1;
    };
    for (int t = 0; t < g_ntravs; t++) {
        TravRec& tr = g_travs[t];
        int last = -1;
        for (int i = 0; i < tr.n; i++) {
            int r = rank(tr.vals[i]);
            if (r < 0) {
                v.ok = false;
                snprintf(v.msg, sizeof v.msg, "phantom-value|traversal of fiber %d returned value %d that was never inserted", tr.fiber, tr.vals[i]);
                return v;
            }
            if (r <= last) {
                v.ok = false;
                snprintf(v.msg, sizeof v.msg, "order|traversal of fiber %d returned value %d out of list order or twice", tr.fiber, tr.vals[i]);
                return v;
            }
            last = r;
        }
        // stable values must be seen: inserted (returned) before the traversal began,
        // and not erased, or erase invoked only after the traversal ended
        for (int x : order) {
            bool inserted_before = x <= p.prefill;
            for (auto& m : ms)
                if (m.kind != ERASE_CUR && m.value == x && m.ret < tr.inv) inserted_before = true;
            if (!inserted_before) continue;
            bool erase_possible = false;
            for (int k = 0; k < g_nmuts; k++)
                if (g_muts[k].kind == ERASE_CUR && g_muts[k].value == x && g_muts[k].inv < tr.ret) erase_possible = true;
            if (erase_possible) continue;
            bool seen = false;
            for (int i = 0; i < tr.n; i++)
                if (tr.vals[i] == x) seen = true;
            if (!seen) {
                v.ok = false;
                snprintf(v.msg, sizeof v.msg, "skipped-stable|traversal of fiber %d skipped value %d which was in the list for its whole duration", tr.fiber, x);
                return v;
            }
        }
    }
    return v;
}

void reference_check_with(const Prog& p, const std::vector<int>& final_contents, std::vector<MutRec> ms, bool report);
void reference_check(const Prog& p, const std::vector<int>& final_contents)
{
    // effective mutations only: erasing an already erased element is a no-op and needs no lock;
    // a mutation that failed with an injected allocation failure may or may not have taken effect
    std::vector<MutRec> sure, maybe;
    for (int i = 0; i < g_nmuts; i++) {
        if (g_muts[i].noop) continue;
        (g_muts[i].maybe ? maybe : sure).push_back(g_muts[i]);
    }
    if (maybe.empty()) {
        reference_check_with(p, final_contents, sure, true);
        return;
    }
    g_ref_ok = false;
    for (unsigned mask = 0; mask < (1u << maybe.size()) && !g_ref_ok; mask++) {
        std::vector<MutRec> ms = sure;
        for (size_t k = 0; k < maybe.size(); k++)
            if (mask & (1u << k)) ms.push_back(maybe[k]);
        reference_check_with(p, final_contents, ms, false);
    }
    if (!g_ref_ok) reference_check_with(p, final_contents, sure, true);
}

void reference_check_with(const Prog& p, const std::vector<int>& final_contents, std::vector<MutRec> ms, bool report)
{
    // an erase of a value some other erase already removed (two writers, same element) is a no-op too
    {
        std::vector<MutRec> eff;
        std::sort(ms.begin(), ms.end(), [](const MutRec& a, const MutRec& b) { return a.acq_seq < b.acq_seq; });
        for (auto& m : ms) {
            bool dup = false;
            if (m.kind == ERASE_CUR)
                for (auto& e : eff)
                    if (e.kind == ERASE_CUR && e.value == m.value) dup = true;
            if (!dup) eff.push_back(m);
        }
        ms = eff;
    }
    bool distinct = true;
    for (size_t i = 1; i < ms.size(); i++)
        if (ms[i].acq_seq == ms[i - 1].acq_seq) distinct = false;
    RefVerdict v = check_order(p, ms, final_contents);
    if (v.ok) {
        g_ref_ok = true;
        return;
    }
    if (distinct && ms.size() > 0) {
        // lock order is the order: report
    } else {
        // no unique lock order: any order respecting per-thread program order (by invocation stamp) will do
        std::vector<int> perm(ms.size());
        for (size_t i = 0; i < perm.size(); i++) perm[i] = (int)i;
        std::sort(perm.begin(), perm.end());
        do {
            bool respects = true;
            // per-thread order = order of invocation stamps among mutations with overlapping-free intervals
            for (size_t a = 0; a < perm.size() && respects; a++)
                for (size_t b = a + 1; b < perm.size(); b++)
                    if (ms[perm[b]].ret < ms[perm[a]].inv) respects = false;  // b finished before a began: cannot come after
            if (!respects) continue;
            std::vector<MutRec> cand;
            for (int i : perm) cand.push_back(ms[i]);
            RefVerdict c = check_order(p, cand, final_contents);
            if (c.ok) {
                g_ref_ok = true;
                return;
            }
        } while (std::next_permutation(perm.begin(), perm.end()));
    }
    if (!report) return;
    char* bar = strchr(v.msg, '|');
    *bar = 0;
    fail(v.msg, "%s", bar + 1);
}

void body(const Prog& p)
{
    ghost_reset();
    size_t base_blocks = live_blocks();
    RG* rg = new RG();
    {
        auto h = rg->lock_write();
        for (int v = 1; v <= p.prefill; v++) h->push_back(Elem(v));
    }
    g_faults_armed = true;
    {
        std::vector<int> ids;
        for (auto& tp : p.threads) {
            ids.push_back(spawn([rg, tp, solo = p.threads.size() == 1, prefill = p.prefill] {
                Interp in;
                in.rg = rg;
                in.solo = solo;
                for (int v = 1; v <= prefill; v++) in.ref.push_back(v);
                for (auto& o : tp) in.run(o);
                // a thread always releases its handle before finishing
                in.run(Op{REL, 0});
            }));
        }
        for (int id : ids) join(id);
    }
    g_faults_armed = false;
    // final contents through a fresh read handle
    std::vector<int> fin;
    {
        auto h = rg->lock_read();
        for (auto it = h->begin(); it != h->end(); ++it) {
            fin.push_back(read_elem(*it));
            MC_CHECK(fin.size() <= 12, "endless-traversal", "final traversal does not terminate");
        }
    }
    reference_check(p, fin);
    fin.clear();
    fin.shrink_to_fit();
    delete rg;
    // everything the list allocated is gone, exactly once (arena accounting is type independent)
    MC_CHECK(live_blocks() == base_blocks, "leak", "%zu allocations of the list were never freed",
             live_blocks() - base_blocks);
#if defined(MODE_C13) && !defined(ELEM_STRING)
    MC_CHECK(g_instances == 0, "element-leak", "%d elements were never destroyed", g_instances);
#endif
#ifdef MODE_C13
    for (int i = 0; i < g_narec; i++)
        MC_CHECK(!g_arec[i].allocated && !g_arec[i].constructed, "alloc-leak", "an allocation was never released");
    MC_CHECK(g_alloc_calls == g_dealloc_calls, "alloc-count", "%d allocate vs %d deallocate calls", g_alloc_calls,
             g_dealloc_calls);
    MC_CHECK(g_construct_calls == g_destroy_calls, "construct-count", "%d construct vs %d destroy calls",
             g_construct_calls, g_destroy_calls);
#endif
}

// ---------------------------------------------------------------- program sets
TProg traverser(bool write) { return {{(uint8_t)(write ? H_W : H_R), 0}, {TRAV, 0}, {REL, 0}}; }
TProg pauser(int steps)  // registers, walks `steps` elements dereferencing each, releases
{
    TProg t = {{H_R, 0}, {BEGIN, 0}};
    for (int i = 0; i < steps; i++) {
        t.push_back({DEREF, 0});
        t.push_back({NEXT, 0});
    }
    t.push_back({DEREF, 0});
    t.push_back({REL, 0});
    return t;
}
TProg eraser(int k, bool again = false, int push = 0)
{
    TProg t = {{H_W, 0}, {BEGIN, 0}};
    for (int i = 0; i < k; i++) t.push_back({NEXT, 0});
    t.push_back({ERASE_CUR, 0});
    if (again) t.push_back({ERASE_AGAIN, 0});
    if (push) t.push_back({PUSH_B, push});
    t.push_back({REL, 0});
    return t;
}
TProg erase_all(int n)
{
    TProg t = {{H_W, 0}, {BEGIN, 0}};
    for (int i = 0; i < n; i++) t.push_back({ERASE_CUR, 0});
    t.push_back({REL, 0});
    return t;
}
TProg reaper(int times)
{
    TProg t;
    for (int i = 0; i < times; i++) {
        t.push_back({H_R, 0});
        t.push_back({BEGIN, 0});
        t.push_back({REL, 0});
    }
    return t;
}
// a reader whose handle is first used while the list is still empty, and which keeps using the same handle
// after another thread has inserted: the handle must protect what it reaches later all the same
TProg early_reader(bool write = false)
{
    return {{(uint8_t)(write ? H_W : H_R), 0}, {BEGIN, 0}, {AWAIT_MUT, 0}, {BEGIN, 0}, {DEREF, 0}, {NEXT, 0}, {DEREF, 0}, {TRAV, 0}, {REL, 0}};
}
TProg pusher(std::vector<std::pair<int, int>> ops)
{
    TProg t = {{H_W, 0}};
    for (auto& o : ops) t.push_back({(uint8_t)o.first, o.second});
    t.push_back({REL, 0});
    return t;
}

void make_items(const Options& o, std::vector<Item>& items)
{
    bool thorough = o.tier == "thorough";
    auto add = [&](int prefill, std::vector<TProg> ts, int Pq, int Pt) {
        Prog p{prefill, ts};
        Item it;
        it.name = text(p);
        it.body = [p] { body(p); };
#if defined(MODE_C12)
        if (ts.size() == 2 && Pq == 2) Pq = 3;  // two-thread programs are cheap enough for one more preemption
        if (Pt < Pq) Pt = Pq;
#endif
        it.bounds = hx::tier_bounds(o, Pq, Pt);
#if defined(MODE_C13) || defined(ALLOC_FAULTS)
        // every allocation made by a client operation may fail (one failure per run; thorough: two)
        it.enumerate_faults = true;
        it.fault_mask = (1u << hx::SITE_ALLOC) | (1u << hx::SITE_CTOR);
#endif
#if defined(ALLOC_FAULTS)
        it.bounds.P = thorough ? 2 : 1;  // the fault is the deviation of interest
#endif
        items.push_back(it);
    };
#if defined(MODE_C12)
    // ---- sequential part: every operation sequence up to a depth, one thread
    {
        std::vector<Op> alpha = {{PUSH_F, 0}, {PUSH_B, 0}, {EMPL_F, 0}, {EMPL_B, 0}, {BEGIN, 0}, {NEXT, 0},
                                 {ERASE_CUR, 0}, {ERASE_AGAIN, 0}, {TRAV, 0}};
        int depth = thorough ? 6 : 5;
        auto seqs = hx::sequences((int)alpha.size(), depth);
        for (auto& s : seqs) {
            // canonical pruning: sequences must contain a mutation, and never two traversals in a row
            bool mut = false, bad = false;
            for (size_t i = 0; i < s.size(); i++) {
                if (alpha[s[i]].k >= PUSH_F || alpha[s[i]].k == ERASE_CUR) mut = true;
                if (i && alpha[s[i]].k == TRAV && alpha[s[i - 1]].k == TRAV) bad = true;
                if (i && alpha[s[i]].k == BEGIN && alpha[s[i - 1]].k == BEGIN) bad = true;
            }
            if (!mut || bad) continue;
            if ((int)s.size() == depth && alpha[s.back()].k != TRAV && alpha[s.back()].k != ERASE_CUR &&
                alpha[s.back()].k != ERASE_AGAIN)
                continue;  // the last op of the deepest level must observe or erase
            TProg t = {{H_W, 0}};
            int nv = 10;
            for (int i : s) {
                Op op = alpha[i];
                if (op.k >= PUSH_F) op.arg = nv++;
                t.push_back(op);
            }
            t.push_back({TRAV, 0});
            t.push_back({REL, 0});
            add(1, {t}, 0, 0);
        }
    }
    // ---- concurrent part: traversers against mutators
    for (int wr = 0; wr < 2; wr++) {
        add(2, {traverser(wr), pusher({{PUSH_F, 10}})}, 2, 3);
        add(2, {traverser(wr), pusher({{PUSH_B, 10}})}, 2, 3);
        add(2, {traverser(wr), pusher({{EMPL_F, 10}, {EMPL_B, 11}})}, 2, 3);
        add(3, {traverser(wr), eraser(0)}, 2, 3);
        add(3, {traverser(wr), eraser(1)}, 2, 3);
        add(3, {traverser(wr), eraser(2)}, 2, 3);
        add(2, {traverser(wr), erase_all(2)}, 2, 3);
        add(2, {traverser(wr), eraser(1, true, 12)}, 2, 3);
    }
    add(2, {traverser(false), pusher({{PUSH_F, 10}}), pusher({{PUSH_B, 11}})}, 2, 3);
    add(2, {traverser(false), pusher({{PUSH_F, 10}}), eraser(0)}, 2, 3);
    add(2, {traverser(false), eraser(1), eraser(1)}, 2, 3);
    add(3, {traverser(false), eraser(0), eraser(2)}, 2, 3);
    add(2, {pusher({{PUSH_F, 10}, {PUSH_B, 11}}), pusher({{PUSH_B, 12}, {PUSH_F, 13}})}, 2, 4);
    add(2, {pusher({{PUSH_F, 10}}), eraser(0), eraser(1)}, 2, 3);
    add(1, {erase_all(1), pusher({{PUSH_B, 10}}), traverser(false)}, 2, 3);
    // the list starts empty
    add(0, {early_reader(), pusher({{PUSH_F, 10}}), eraser(0)}, 2, 3);
    add(0, {early_reader(), pusher({{PUSH_B, 10}, {PUSH_B, 11}}), eraser(0), reaper(1)}, 2, 3);
    if (thorough) {
        add(2, {traverser(false), traverser(true), pusher({{PUSH_F, 10}}), eraser(1)}, 2, 2);
        add(3, {traverser(false), erase_all(3), pusher({{PUSH_B, 10}, {PUSH_F, 11}})}, 2, 3);
        add(2, {traverser(false), pusher({{PUSH_F, 10}, {PUSH_F, 11}}), eraser(0, true)}, 2, 3);
    }
#elif defined(MODE_C13)
    // ---- sequential part: every handle/mutation history up to a depth, one thread
    {
        std::vector<Op> alpha = {{H_R, 0}, {H_W, 0}, {BEGIN, 0}, {REL, 0}, {PUSH_F, 0}, {PUSH_B, 0}, {NEXT, 0}, {ERASE_CUR, 0}};
        int depth = thorough ? 7 : 6;
        auto seqs = hx::sequences((int)alpha.size(), depth);
        for (auto& s : seqs) {
            // well-formed only: handle ops need a handle; at most one handle per thread at a time
            bool have = false, ok = true, it = false;
            for (int i : s) {
                uint8_t k = alpha[i].k;
                if (k == H_R || k == H_W) {
                    if (have) ok = false;
                    have = true;
                    it = false;
                } else if (k == REL) {
                    if (!have) ok = false;
                    have = false;
                } else if (!have) {
                    ok = false;
                } else if (k == BEGIN) {
                    it = true;
                } else if ((k == NEXT || k == ERASE_CUR) && !it) {
                    ok = false;
                }
            }
            if (!ok) continue;
            TProg t;
            int nv = 10;
            for (int i : s) {
                Op op = alpha[i];
                if (op.k >= PUSH_F) op.arg = nv++;
                t.push_back(op);
            }
            for (int pre = 0; pre <= 1; pre++) add(pre * 2, {t}, 0, 0);
        }
    }
    // ---- concurrent part: reclamation by concurrent releases
    for (int n = 2; n <= 3; n++) {
        add(n, {pauser(1), eraser(0), reaper(1)}, 2, 3);
        add(n, {pauser(1), eraser(1), reaper(2)}, 2, 3);
    }
    add(2, {pauser(2), erase_all(2), reaper(1)}, 2, 3);
    add(2, {reaper(1), reaper(1), reaper(1)}, 2, 3);
    add(2, {reaper(2), eraser(0)}, 3, 4);
    add(2, {pusher({{PUSH_F, 10}}), eraser(0), reaper(1)}, 2, 3);
    add(2, {traverser(true), eraser(1, true), reaper(1)}, 2, 3);
    // two writers erasing the same element: it must still be destroyed exactly once
    add(2, {eraser(0), eraser(0)}, 3, 4);
    add(2, {eraser(1), eraser(1), reaper(1)}, 2, 3);
    add(1, {eraser(0, true), eraser(0)}, 3, 4);
    // the list starts empty
    add(0, {early_reader(), pusher({{PUSH_F, 10}}), eraser(0)}, 2, 3);
    add(0, {early_reader(), pusher({{PUSH_B, 10}}), eraser(0), reaper(1)}, 2, 3);
    // two writers on neighbouring elements / on the tail: nothing may be cut off (never destroyed) or logged twice
    add(2, {eraser(0), eraser(1), reaper(1)}, 2, 3);
    add(2, {pusher({{PUSH_B, 10}}), eraser(1), reaper(1)}, 2, 3);
    add(3, {eraser(1), eraser(2), pusher({{EMPL_B, 10}})}, 2, 3);
    // scale: long runs of released records behind a handle that is still held (thresholds in the log walk)
    add(5, {pauser(1), erase_all(5), reaper(2)}, 1, 2);
    add(2, {pauser(1), reaper(7)}, 1, 2);
    if (thorough) {
        add(3, {pauser(2), eraser(1), reaper(1), reaper(1)}, 2, 2);
        add(2, {pauser(1), pauser(1), erase_all(2), reaper(1)}, 2, 2);
    }
#else
    // ---- C05 / C14: traversers pausing on elements, erasers, reapers
    for (int n = 2; n <= 3; n++) {
        for (int k = 0; k < n; k++) {
            add(n, {pauser(n - 1), eraser(k)}, 3, 4);
            add(n, {pauser(n - 1), eraser(k), reaper(1)}, 2, 3);
            add(n, {traverser(true), eraser(k), reaper(1)}, 2, 3);
        }
        add(n, {pauser(n - 1), erase_all(n), reaper(1)}, 2, 3);
        add(n, {pauser(n - 1), erase_all(n), reaper(2)}, 2, 3);
    }
    add(2, {pauser(1), eraser(0, true, 10), reaper(1)}, 2, 3);
    add(2, {pauser(1), eraser(1), reaper(2)}, 2, 3);
    add(2, {pauser(1), pauser(1), eraser(0)}, 2, 3);
    add(2, {pauser(1), eraser(0), eraser(1)}, 2, 3);
    add(2, {pauser(1), eraser(0), eraser(0)}, 2, 3);
    add(2, {pauser(1), eraser(0), pusher({{PUSH_F, 10}})}, 2, 3);
    add(2, {pauser(1), pauser(1), eraser(1), reaper(1)}, 2, 2);
    add(2, {pauser(1), eraser(0), reaper(1), reaper(1)}, 2, 2);
    // the list starts empty
    add(0, {early_reader(), pusher({{PUSH_F, 10}}), eraser(0)}, 2, 3);
    add(0, {early_reader(), pusher({{PUSH_B, 10}, {PUSH_B, 11}}), eraser(0), reaper(1)}, 2, 3);
    add(0, {early_reader(true), pusher({{PUSH_F, 10}}), eraser(0), reaper(1)}, 2, 3);
    // scale: long runs of released records behind a handle that is still held
    add(5, {pauser(2), erase_all(5), reaper(2)}, 1, 2);
    add(2, {pauser(1), reaper(7)}, 1, 2);
    if (thorough) {
        // systematic: traverser kind x eraser kind x reaper kind x list size
        for (int n = 2; n <= 3; n++) {
            std::vector<TProg> travs = {pauser(n - 1), traverser(false), traverser(true)};
            std::vector<TProg> erasers;
            for (int k = 0; k < n; k++) {
                erasers.push_back(eraser(k));
                erasers.push_back(eraser(k, true));
                erasers.push_back(eraser(k, false, 10));
            }
            erasers.push_back(erase_all(n));
            std::vector<std::vector<TProg>> reapers = {{}, {reaper(1)}, {reaper(2)}, {reaper(1), reaper(1)}};
            for (auto& t : travs)
                for (auto& e : erasers)
                    for (auto& r : reapers) {
                        std::vector<TProg> th = {t, e};
                        for (auto& x : r) th.push_back(x);
                        add(n, th, 2, 6);
                    }
        }
        add(3, {pauser(2), pauser(1), erase_all(3), reaper(1)}, 2, 2);
        add(3, {pauser(2), eraser(1), reaper(2), reaper(1)}, 2, 2);
        add(2, {traverser(false), traverser(true), erase_all(2), reaper(1)}, 2, 2);
    }
#endif
}
}  // namespace

int main(int argc, char** argv)
{
#if defined(MODE_C12)
    return run_main(argc, argv, "C12", "C12", make_items);
#elif defined(MODE_C13) && defined(ELEM_STRING)
    return run_main(argc, argv, "C13", "C13_string", make_items);
#elif defined(MODE_C13)
    return run_main(argc, argv, "C13", "C13", make_items);
#elif defined(MODE_C14)
#if defined(STATEFUL_ALLOC)
    return run_main(argc, argv, "C14", "C14_rcu_alloc", make_items);
#else
    return run_main(argc, argv, "C14", "C14_rcu", make_items);
#endif
#elif defined(ALLOC_FAULTS)
    return run_main(argc, argv, "C05", "C05_allocfaults", make_items);
#else
    return run_main(argc, argv, "C05", "C05", make_items);
#endif
}
