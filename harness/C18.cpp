// C18: every DelayedObjects future is fulfilled exactly once and never hangs
#define HX_MAIN
#include <chrono>
#include <future>
#include <string>
#include "common.h"
#include "gmlc/concurrency/DelayedObjects.hpp"

using namespace mcrt;
using namespace std::chrono_literals;

namespace {
constexpr int NK = 3;  // keys: int 0, int 1, string "x"
const char* keyn[NK] = {"0", "1", "\"x\""};
enum OpK : uint8_t { GETFUT, SET_COPY, SET_MOVE, FULFILL, FINISH, ISREC, ISCOMP, NOPK };
const char* opn[] = {"getFuture", "setDelayedValue(copy)", "setDelayedValue(move)", "fulfillAllPromises", "finishedWithValue",
                     "isRecognized", "isCompleted"};
struct Op {
    uint8_t k;
    int8_t key;
    int8_t val;
};
std::string optext(const Op& o)
{
    std::string s = opn[o.k];
    if (o.k == FULFILL) return s + "(" + std::to_string(o.val) + ")";
    s += std::string("(") + keyn[o.key];
    if (o.k == SET_COPY || o.k == SET_MOVE) s += "," + std::to_string(o.val);
    return s + ")";
}

template<class X>
struct Conv;
template<>
struct Conv<int> {
    static int make(int v) { return v; }
    static int back(const int& v) { return v; }
};
template<>
struct Conv<std::string> {
    // long enough to live on the heap
    static std::string make(int v) { return v == 0 ? std::string() : std::string("value_that_does_not_fit_the_small_buffer_") + std::to_string(v); }
    static int back(const std::string& s) { return s.empty() ? 0 : atoi(s.c_str() + s.rfind('_') + 1); }
};

// payload whose copy / move construction may fail while a value is being stored (fault enumeration)
bool g_blob_armed[8];
struct Blob {
    int v = 0;
    Blob() = default;
    explicit Blob(int x): v(x) {}
    Blob(const Blob& o): v(o.v)
    {
        if (g_blob_armed[self()]) may_throw(hx::SITE_COPY);
    }
    Blob(Blob&& o) noexcept(false): v(o.v)
    {
        if (g_blob_armed[self()]) may_throw(hx::SITE_COPY);
    }
    Blob& operator=(const Blob&) = default;
    Blob& operator=(Blob&&) = default;
};
template<>
struct Conv<Blob> {
    static Blob make(int v) { return Blob(v); }
    static int back(const Blob& b) { return b.v; }
};

struct Ref {
    uint8_t st[NK] = {0, 0, 0};  // 0 unknown, 1 pending, 2 completed
    int8_t fval[NK] = {-1, -1, -1};  // value the promise was fulfilled with
};
int ref_apply(Ref& r, const Op& o)
{
    switch (o.k) {
        case GETFUT: r.st[o.key] = 1; return 0;
        case SET_COPY:
        case SET_MOVE:
            if (r.st[o.key] == 1) {
                r.st[o.key] = 2;
                r.fval[o.key] = o.val;
            }
            return 0;
        case FULFILL:
            for (int k = 0; k < NK; k++)
                if (r.st[k] == 1) {
                    r.st[k] = 2;
                    r.fval[k] = o.val;
                }
            return 0;
        case FINISH:
            if (r.st[o.key] == 2) r.st[o.key] = 0;
            return 0;
        case ISREC: return r.st[o.key] != 0;
        case ISCOMP: return r.st[o.key] == 2;
    }
    return 0;
}
void ref_destroy(Ref& r)
{
    for (int k = 0; k < NK; k++)
        if (r.st[k] == 1) {
            r.st[k] = 2;
            r.fval[k] = 0;
        }
}

struct Prog {
    int str;  // payload: 0 = int, 1 = std::string, 2 = Blob (copy / move may throw while a value is stored)
    uint8_t pre;  // bitmask of keys whose future main requests before the threads start
    bool destroy_early;  // destroy the container while consumers still wait
    std::vector<std::vector<Op>> threads;
    int key1 = 1;  // the integer used for the second int key ("1"): far-apart keys exercise key hashing / masks
};
int g_key1 = 1;
std::string text(const Prog& p)
{
    std::string s = std::string("DelayedObjects<") + (p.str == 2 ? "Blob(throwing copy)" : p.str ? "string" : "int") + ">";
    if (p.key1 != 1) s += " [int keys 0 and " + std::to_string(p.key1) + "]";
    if (p.pre) {
        s += " futures requested up front:";
        for (int k = 0; k < NK; k++)
            if (p.pre & (1 << k)) s += std::string(" ") + keyn[k];
        s += " (one consumer each)";
    }
    if (p.destroy_early) s += " [container destroyed while consumers wait]";
    for (auto& t : p.threads) {
        s += " |";
        for (auto& o : t) s += " " + optext(o);
    }
    return s;
}

struct HistE {
    Op op;
    int res;
    uint64_t inv, ret;
    bool failed;  // the call threw (payload copy failed): it must have had no effect
};
HistE g_hist[12];
int g_nhist;
int g_failed[12];
int g_nfailed;
int g_fut_val[NK];  // observed future values (-1 none)

bool lin_search(int mask, const Ref& st, int n)
{
    if (mask == (1 << n) - 1) {
        Ref fin = st;
        ref_destroy(fin);
        for (int k = 0; k < NK; k++)
            if (g_fut_val[k] >= 0 && fin.fval[k] != g_fut_val[k]) return false;
        return true;
    }
    for (int i = 0; i < n; i++) {
        if (mask & (1 << i)) continue;
        bool ready = true;
        for (int j = 0; j < n; j++)
            if (j != i && !(mask & (1 << j)) && g_hist[j].ret < g_hist[i].inv) ready = false;
        if (!ready) continue;
        Ref ns = st;
        if (!g_hist[i].failed) {
            int e = ref_apply(ns, g_hist[i].op);
            if (e != g_hist[i].res) continue;
        }
        if (lin_search(mask | (1 << i), ns, n)) return true;
    }
    return false;
}

template<class X>
struct Box {
    gmlc::concurrency::DelayedObjects<X>* d;
    std::future<X> fut[NK];
    bool has[NK] = {false, false, false};
};

template<class X>
int run_op(Box<X>* b, const Op& o)
{
    auto* d = b->d;
    const std::string sx = "x";
    try {
        switch (o.k) {
            case GETFUT:
                if (o.key < 2) b->fut[o.key] = d->getFuture(o.key ? g_key1 : 0);
                else b->fut[o.key] = d->getFuture(sx);
                b->has[o.key] = true;
                MC_CHECK(b->fut[o.key].valid(), "invalid-future", "getFuture returned an invalid future");
                return 0;
            case SET_COPY: {
                const X v = Conv<X>::make(o.val);
                g_blob_armed[self()] = true;
                if (o.key < 2) d->setDelayedValue(o.key ? g_key1 : 0, v);
                else d->setDelayedValue(sx, v);
                g_blob_armed[self()] = false;
                return 0;
            }
            case SET_MOVE: {
                X v = Conv<X>::make(o.val);
                g_blob_armed[self()] = true;
                if (o.key < 2) d->setDelayedValue(o.key ? g_key1 : 0, std::move(v));
                else d->setDelayedValue(sx, std::move(v));
                g_blob_armed[self()] = false;
                return 0;
            }
            case FULFILL: d->fulfillAllPromises(Conv<X>::make(o.val)); return 0;
            case FINISH:
                if (o.key < 2) d->finishedWithValue(o.key ? g_key1 : 0);
                else d->finishedWithValue(sx);
                return 0;
            case ISREC: return o.key < 2 ? d->isRecognized(o.key ? g_key1 : 0) : d->isRecognized(sx);
            case ISCOMP: return o.key < 2 ? d->isCompleted(o.key ? g_key1 : 0) : d->isCompleted(sx);
        }
    }
    catch (const std::future_error& e) {
        std::string t = optext(o);
        fail("escaped-exception", "%s threw std::future_error: %s", t.c_str(), e.what());
    }
    catch (const Injected&) {
        // storing the value failed (the payload's copy threw): the call must have had no effect,
        // the key stays pending and is completed later by a retry, fulfil-all or destruction
        g_blob_armed[self()] = false;
        return -7;
    }
    return 0;
}

template<class X>
void body_t(const Prog& p)
{
    g_nhist = 0;
    g_key1 = p.key1;
    g_nfailed = 0;
    memset(g_blob_armed, 0, sizeof g_blob_armed);
    for (int k = 0; k < NK; k++) g_fut_val[k] = -1;
    size_t base_blocks = live_blocks();
    auto* b = new Box<X>();
    b->d = new gmlc::concurrency::DelayedObjects<X>();
    const bool solo = p.threads.size() == 1 && p.pre == 0;
    Ref init;
    for (int k = 0; k < NK; k++)
        if (p.pre & (1 << k)) {
            run_op(b, Op{GETFUT, (int8_t)k, 0});
            init.st[k] = 1;
        }
    {
        std::vector<int> ids, consumers;
        for (auto& ops : p.threads) {
            ids.push_back(spawn([b, ops, solo] {
                Ref ref;
                for (auto& o : ops) {
                    if (solo) {
                        Ref before = ref;
                        int e = ref_apply(ref, o);
                        int g = run_op(b, o);
                        std::string t = optext(o);
                        if (g == -7) {
                            ref = before;  // failed: no effect
                            g_failed[g_nfailed++] = (int)(&o - &ops[0]);
                            e = g;
                        }
                        MC_CHECK(e == g, "result-mismatch", "%s returned %d, reference says %d", t.c_str(), g, e);
                        // whole query surface
                        for (int k = 0; k < NK; k++) {
                            int r1 = run_op(b, Op{ISREC, (int8_t)k, 0}), r2 = run_op(b, Op{ISCOMP, (int8_t)k, 0});
                            MC_CHECK(r1 == (ref.st[k] != 0) && r2 == (ref.st[k] == 2), "lifecycle-mismatch",
                                     "after %s: key %s isRecognized=%d isCompleted=%d, reference state %d", t.c_str(), keyn[k], r1, r2, ref.st[k]);
                            if (b->has[k]) {
                                bool ready = b->fut[k].wait_for(0s) == std::future_status::ready;
                                MC_CHECK(ready == (ref.fval[k] >= 0), "readiness-mismatch", "after %s: future of key %s is %s", t.c_str(), keyn[k],
                                         ready ? "ready too early" : "not ready although completed");
                            }
                        }
                    } else {
                        int hi = g_nhist++;
                        g_hist[hi].op = o;
                        g_hist[hi].failed = false;
                        g_hist[hi].inv = stamp();
                        g_hist[hi].ret = ~uint64_t(0);
                        g_hist[hi].res = run_op(b, o);
                        g_hist[hi].ret = stamp();
                        g_hist[hi].failed = (g_hist[hi].res == -7);
                        observe((uint64_t)g_hist[hi].res + 3 * o.k);
                    }
                }
                if (solo) {
                    // hand the reference to the final check through the history log
                    for (size_t oi = 0; oi < ops.size(); oi++) {
                        bool failed = false;
                        for (int k = 0; k < g_nfailed; k++)
                            if (g_failed[k] == (int)oi) failed = true;
                        if (failed) continue;
                        const Op& o = ops[oi];
                        int hi = g_nhist++;
                        g_hist[hi].op = o;
                        g_hist[hi].failed = false;
                        g_hist[hi].inv = g_hist[hi].ret = stamp();
                        g_hist[hi].res = -100;  // marker: recompute
                    }
                }
            }));
        }
        // consumers blocked on the futures requested up front
        for (int k = 0; k < NK; k++)
            if (p.pre & (1 << k))
                consumers.push_back(spawn([b, k] {
                    await([b, k] { return b->fut[k].wait_for(0s) == std::future_status::ready; });
                    try {
                        X v = b->fut[k].get();
                        g_fut_val[k] = Conv<X>::back(v);
                    }
                    catch (const std::future_error& e) {
                        fail("broken-future", "future of key %s delivered an error instead of a value: %s", keyn[k], e.what());
                    }
                    observe(500 + (uint64_t)g_fut_val[k]);
                }));
        for (int id : ids) join(id);
        if (!p.destroy_early) {
            // give the consumers whatever is still pending by destroying the container afterwards
        }
        delete b->d;
        b->d = nullptr;
        for (int id : consumers) join(id);
    }
    // futures handed out inside the threads: all must be ready now
    for (int k = 0; k < NK; k++) {
        if (!b->has[k] || (p.pre & (1 << k))) continue;
        MC_CHECK(b->fut[k].wait_for(0s) == std::future_status::ready, "future-not-ready",
                 "future of key %s is not ready after the container was destroyed", keyn[k]);
        try {
            X v = b->fut[k].get();
            g_fut_val[k] = Conv<X>::back(v);
        }
        catch (const std::future_error& e) {
            fail("broken-future", "future of key %s delivered an error instead of a value: %s", keyn[k], e.what());
        }
    }
    if (solo) {
        Ref ref;
        for (int i = 0; i < g_nhist; i++) ref_apply(ref, g_hist[i].op);
        ref_destroy(ref);
        for (int k = 0; k < NK; k++)
            if (g_fut_val[k] >= 0 || b->has[k])
                MC_CHECK(g_fut_val[k] == ref.fval[k], "future-value", "future of key %s delivered %d, reference says %d", keyn[k], g_fut_val[k],
                         ref.fval[k]);
    } else {
        MC_CHECK(lin_search(0, init, g_nhist), "not-linearizable",
                 "the concurrent history (%d calls) and the values delivered by the futures have no sequential explanation", g_nhist);
    }
    delete b;
    MC_CHECK(live_blocks() == base_blocks, "leak", "%zu arena blocks not freed", live_blocks() - base_blocks);
}

void body(const Prog& p)
{
    if (p.str == 2) body_t<Blob>(p);
    else if (p.str) body_t<std::string>(p);
    else body_t<int>(p);
}

void make_items(const Options& o, std::vector<Item>& items)
{
    bool thorough = o.tier == "thorough";
    auto add = [&](const Prog& p, int Pq, int Pt) {
        Item it;
        it.name = text(p);
        it.body = [p] { body(p); };
        it.bounds = hx::tier_bounds(o, Pq, Pt);
        if (p.str == 2) {
            // every copy / move of the payload inside a setDelayedValue call may throw
            it.enumerate_faults = true;
            it.fault_mask = 1u << hx::SITE_COPY;
        }
        items.push_back(it);
    };
    // ---- sequential part
    std::vector<Op> al;
    for (int k = 0; k < NK; k++) al.push_back(Op{GETFUT, (int8_t)k, 0});
    for (int k = 0; k < NK; k++) al.push_back(Op{SET_COPY, (int8_t)k, 5});
    for (int k = 0; k < NK; k++) al.push_back(Op{SET_MOVE, (int8_t)k, 6});
    al.push_back(Op{FULFILL, 0, 7});
    for (int k = 0; k < NK; k++) al.push_back(Op{FINISH, (int8_t)k, 0});
    {
        int depth = thorough ? 5 : 4;
        auto seqs = hx::sequences((int)al.size(), depth);
        for (auto& s : seqs) {
            int req[NK] = {0, 0, 0};
            bool ok = true, any = false;
            for (int i : s)
                if (al[i].k == GETFUT) {
                    any = true;
                    if (++req[al[i].key] > 1) ok = false;  // each key is requested once
                }
            if (!ok || !any) continue;
            for (int str = 0; str < 3; str++) {
                if (str == 2) {
                    // throwing payload: sequences with a set, up to depth 4
                    bool has_set = false;
                    for (int i : s)
                        if (al[i].k == SET_COPY || al[i].k == SET_MOVE) has_set = true;
                    if (!has_set || s.size() > 4) continue;
                }
                Prog p;
                p.str = str;
                p.pre = 0;
                p.destroy_early = false;
                std::vector<Op> t;
                for (int i : s) t.push_back(al[i]);
                p.threads.push_back(t);
                add(p, 0, 0);
                // scale: the same history with the two int keys far apart (word-size multiples)
                if (str == 0 && req[0] == 1 && req[1] == 1 && s.size() <= 4) {
                    for (int k1 : {32, 64, 256, 65536}) {
                        if (!thorough && k1 != 64 && k1 != 256) continue;
                        p.key1 = k1;
                        add(p, 0, 0);
                    }
                    p.key1 = 1;
                }
            }
        }
    }
    // ---- concurrent part: futures for keys 0 and "x" requested up front, one consumer each
    std::vector<Op> cal = {Op{SET_COPY, 0, 5}, Op{SET_MOVE, 0, 6}, Op{SET_MOVE, 2, 6}, Op{SET_COPY, 1, 5}, Op{FULFILL, 0, 7},
                           Op{FINISH, 0, 0},   Op{ISREC, 0, 0},    Op{ISCOMP, 0, 0},   Op{ISCOMP, 2, 0},   Op{GETFUT, 1, 0}};
    auto seq1 = hx::sequences((int)cal.size(), 1);
    auto seq2 = hx::sequences((int)cal.size(), 2);
    auto conv = [&](const std::vector<int>& s) {
        std::vector<Op> t;
        for (int i : s) t.push_back(cal[i]);
        return t;
    };
    auto valid = [&](const Prog& p) {
        int req1 = 0, mut = 0;
        for (auto& t : p.threads)
            for (auto& o2 : t) {
                if (o2.k == GETFUT) req1++;
                if (o2.k <= FINISH) mut++;
            }
        return req1 <= 1 && mut >= 1;
    };
    // throwing payload under concurrency: a failed set followed / accompanied by retry, fulfil-all, queries
    for (auto& th : std::vector<std::vector<std::vector<Op>>>{
             {{Op{SET_COPY, 0, 5}, Op{SET_COPY, 0, 6}}, {Op{ISREC, 0, 0}}},
             {{Op{SET_MOVE, 0, 5}}, {Op{FULFILL, 0, 7}}},
             {{Op{SET_COPY, 0, 5}}, {Op{SET_MOVE, 0, 6}}},
             {{Op{SET_COPY, 0, 5}, Op{FINISH, 0, 0}}, {Op{ISCOMP, 0, 0}}},
             {{Op{SET_COPY, 2, 5}}, {Op{SET_COPY, 0, 6}}, {Op{FULFILL, 0, 7}}}}) {
        Prog p;
        p.str = 2;
        p.pre = 0b101;
        p.destroy_early = true;
        p.threads = th;
        add(p, 2, 3);
    }
    for (int str = 0; str < 2; str++) {
        hx::multisets((int)seq2.size(), 2, [&](const std::vector<int>& idx) {
            Prog p;
            p.str = str;
            p.pre = thorough ? 0b101 : 0b001;
            p.destroy_early = true;
            p.threads = {conv(seq2[idx[0]]), conv(seq2[idx[1]])};
            if (!valid(p)) return;
            if (!thorough) {
                if (p.threads[0].size() + p.threads[1].size() == 4) return;
                // quick: a two-call client starts with a call that completes or finishes something
                for (auto& t : p.threads)
                    if (t.size() == 2 && !(t[0].k == SET_COPY || t[0].k == SET_MOVE || t[0].k == FULFILL)) return;
            }
            add(p, 2, 3);
            if (!thorough && p.threads[0].size() + p.threads[1].size() == 2) {
                p.pre = 0b101;  // two consumers for the smallest programs
                add(p, 2, 3);
            }
        });
        hx::multisets((int)seq1.size(), 3, [&](const std::vector<int>& idx) {
            Prog p;
            p.str = str;
            p.pre = 0b001;
            p.destroy_early = true;
            p.threads = {conv(seq1[idx[0]]), conv(seq1[idx[1]]), conv(seq1[idx[2]])};
            if (!valid(p)) return;
            if (!thorough) {
                // quick: at least two of the three clients complete / finish something
                int m = 0;
                for (auto& t : p.threads)
                    if (t[0].k <= FINISH && t[0].k != GETFUT) m++;
                if (m < 2) return;
            }
            add(p, 2, 2);
        });
    }
}
}  // namespace

int main(int argc, char** argv)
{
    return run_main(argc, argv, "C18", "C18", make_items);
}
