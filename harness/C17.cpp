// C17: SearchableObjectHolder is an atomic, memory-safe name-to-object map
#define HX_MAIN
#include <map>
#include <memory>
#include <string>
#include "common.h"
#include "gmlc/concurrency/SearchableObjectHolder.hpp"

using namespace mcrt;

namespace {
constexpr int NN = 3;  // names
const char* const NAMES[NN] = {"a", "b", "c_name_that_is_longer_than_the_small_string_buffer"};
constexpr int MAXID = 64;
int g_alive[MAXID];
int g_next_id;
struct Obj;
// other owners: every object a client creates stays referenced from outside the holder until the end, so that
// a removed object is still alive (what a stale lookup would hand out)
struct Keep {
    std::shared_ptr<Obj> arr[MAXID];
};
Keep* g_keep;

struct Obj {
    int id;
    int chk;
    explicit Obj(int i): id(i), chk(~i) { g_alive[i] = 1; }
    ~Obj()
    {
        g_alive[id] = 0;
        id = -1;
    }
};
using SOH = gmlc::concurrency::SearchableObjectHolder<Obj, int>;
using SP = std::shared_ptr<Obj>;

enum OpK : uint8_t { ADD, ADDT, ADDTYPE, COPY, REMOVE, RMPRED, FIND, FINDPRED, FINDPRED_T, CHECK, GETOBJS, EMPTY, NOPK };
const char* opn[] = {"addObject", "addObject(+type)", "addType", "copyObject", "removeObject", "removeObject(pred)",
                     "findObject", "findObject(pred)", "findObject(pred,type)", "checkObjectType", "getObjects", "empty"};
struct Op {
    uint8_t k;
    int8_t a, b;  // name index / type / predicate selector (0 never, 1 id==1, 2 id==2, 3 always)
};
std::string optext(const Op& o)
{
    std::string s = opn[o.k];
    auto nm = [](int i) { return std::string(i == 2 ? "LONG" : NAMES[i]); };
    static const char* pr[] = {"never", "id==1", "id==2", "always"};
    switch (o.k) {
        case ADD: case REMOVE: case FIND: s += "(" + nm(o.a) + ")"; break;
        case ADDT: case ADDTYPE: case CHECK: s += "(" + nm(o.a) + "," + std::to_string(o.b) + ")"; break;
        case COPY: s += "(" + nm(o.a) + "->" + nm(o.b) + ")"; break;
        case RMPRED: case FINDPRED: s += std::string("(") + pr[o.a] + ")"; break;
        case FINDPRED_T: s += std::string("(") + pr[o.a] + "," + std::to_string(o.b) + ")"; break;
        default: break;
    }
    return s;
}

// ---------------------------------------------------------------- reference model
struct Ref {
    int obj[NN] = {0, 0, 0};  // object id stored under the name, 0 = none
    uint8_t tags[NN] = {0, 0, 0};  // bit t set = tag t (only meaningful while has_tags)
    bool has_tags[NN] = {false, false, false};
    bool tainted[NN] = {false, false, false};  // tags added while no object was stored: unspecified
    bool operator==(const Ref& o) const { return memcmp(this, &o, sizeof(Ref)) == 0; }
};
bool pred_match(int sel, int id) { return sel == 3 || (sel == 1 && id == 1) || (sel == 2 && id == 2); }
// name order of the std::map: "a" < "b" < "c_..."
struct Res {
    int v;  // bool / object id (0 = null)
    uint32_t set;  // getObjects: bitmask of ids... (ids < 16)
    int count;
};
// applies op to the reference; `newid` is the id of the object an add would store
Res ref_apply(Ref& r, const Op& o, int newid)
{
    Res res{0, 0, 0};
    switch (o.k) {
        case ADD:
            if (!r.obj[o.a]) {
                r.obj[o.a] = newid;
                res.v = 1;
            }
            break;
        case ADDT:
            if (!r.obj[o.a]) {
                r.obj[o.a] = newid;
                if (!r.has_tags[o.a]) {
                    r.has_tags[o.a] = true;
                    r.tags[o.a] = (uint8_t)(1u << o.b);
                }
                res.v = 1;
            }
            break;
        case ADDTYPE:
            if (!r.obj[o.a]) r.tainted[o.a] = true;
            r.has_tags[o.a] = true;
            r.tags[o.a] |= (uint8_t)(1u << o.b);
            break;
        case COPY:
            if (r.obj[o.a] && !r.obj[o.b]) {
                r.obj[o.b] = r.obj[o.a];
                if (r.has_tags[o.a] && !r.has_tags[o.b]) {
                    r.has_tags[o.b] = true;
                    r.tags[o.b] = r.tags[o.a];
                }
                if (r.tainted[o.a]) r.tainted[o.b] = true;
                res.v = 1;
            }
            break;
        case REMOVE:
            if (r.obj[o.a]) {
                r.obj[o.a] = 0;
                r.has_tags[o.a] = false;
                r.tags[o.a] = 0;
                r.tainted[o.a] = false;
                res.v = 1;
            }
            break;
        case RMPRED:
            for (int n = 0; n < NN; n++)
                if (r.obj[n] && pred_match(o.a, r.obj[n])) {
                    r.obj[n] = 0;
                    r.has_tags[n] = false;
                    r.tags[n] = 0;
                    r.tainted[n] = false;
                    res.v = 1;
                    break;
                }
            break;
        case FIND: res.v = r.obj[o.a]; break;
        case FINDPRED:
            for (int n = 0; n < NN; n++)
                if (r.obj[n] && pred_match(o.a, r.obj[n])) {
                    res.v = r.obj[n];
                    break;
                }
            break;
        case FINDPRED_T:
            for (int n = 0; n < NN; n++)
                if (r.obj[n] && pred_match(o.a, r.obj[n]) && r.has_tags[n] && (r.tags[n] & (1u << o.b))) {
                    res.v = r.obj[n];
                    break;
                }
            break;
        case CHECK: res.v = r.has_tags[o.a] && (r.tags[o.a] & (1u << o.b)); break;
        case GETOBJS:
            for (int n = 0; n < NN; n++)
                if (r.obj[n]) {
                    res.set |= 1u << r.obj[n];
                    res.count++;
                }
            break;
        case EMPTY: res.v = !(r.obj[0] || r.obj[1] || r.obj[2]); break;
    }
    return res;
}
bool any_taint(const Ref& r) { return r.tainted[0] || r.tainted[1] || r.tainted[2]; }
// Results a typed predicate find may return: entries whose tags are unspecified (tags were added while the name was not
// stored) may or may not carry the tag, every other entry is definite. Bit i = object id i, bit 0 = null.
uint32_t allowed_typed(const Ref& r, int sel, int t)
{
    uint32_t ok = 0;
    for (int n = 0; n < NN; n++) {
        if (!r.obj[n] || !pred_match(sel, r.obj[n])) continue;
        if (r.tainted[n]) {
            ok |= 1u << r.obj[n];  // may match, or be passed over
            continue;
        }
        if (r.has_tags[n] && (r.tags[n] & (1u << t))) return ok | (1u << r.obj[n]);  // definite first match
    }
    return ok | 1u;
}

int use_obj(const SP& sp, const char* what)
{
    if (!sp) return 0;
    int id = sp->id;
    point();
    MC_CHECK(sp->chk == ~id && id > 0 && id < MAXID && g_alive[id], "dead-object",
             "%s: returned object is not alive (id field reads %d)", what, id);
    return id;
}

// run op on the real holder; `newid` pre-allocated for adds
Res real_apply(SOH& h, const Op& o, int newid)
{
    Res res{0, 0, 0};
    auto pred = [sel = o.a](const SP& p) { return pred_match(sel, p->id); };
    switch (o.k) {
        case ADD: {
            auto sp = std::make_shared<Obj>(newid);
            if (g_keep) g_keep->arr[newid] = sp;
            res.v = h.addObject(NAMES[o.a], std::move(sp));
            break;
        }
        case ADDT: {
            auto sp = std::make_shared<Obj>(newid);
            if (g_keep) g_keep->arr[newid] = sp;
            res.v = h.addObject(NAMES[o.a], std::move(sp), (int)o.b);
            break;
        }
        case ADDTYPE: h.addType(NAMES[o.a], (int)o.b); break;
        case COPY: res.v = h.copyObject(NAMES[o.a], NAMES[o.b]); break;
        case REMOVE: res.v = h.removeObject(std::string(NAMES[o.a])); break;
        case RMPRED: res.v = h.removeObject(pred); break;
        case FIND: res.v = use_obj(h.findObject(std::string(NAMES[o.a])), "findObject(name)"); break;
        case FINDPRED: res.v = use_obj(h.findObject(pred), "findObject(pred)"); break;
        case FINDPRED_T: res.v = use_obj(h.findObject(pred, (int)o.b), "findObject(pred,type)"); break;
        case CHECK: res.v = h.checkObjectType(NAMES[o.a], (int)o.b); break;
        case GETOBJS: {
            auto v = h.getObjects();
            for (auto& sp : v) {
                int id = use_obj(sp, "getObjects");
                res.set |= 1u << id;
                res.count++;
            }
            break;
        }
        case EMPTY: res.v = h.empty(); break;
    }
    return res;
}

// ---------------------------------------------------------------- programs
struct Prog {
    std::vector<std::vector<Op>> threads;
    bool keep_refs = false;  // clients keep their own reference to every object they add
};
std::string text(const Prog& p)
{
    std::string s = p.keep_refs ? "SearchableObjectHolder [objects also owned elsewhere]" : "SearchableObjectHolder";
    for (auto& t : p.threads) {
        s += " |";
        for (auto& o : t) s += " " + optext(o);
    }
    return s;
}

// full query surface against the reference (sequential part)
void compare_surface(SOH& h, const Ref& r, const char* after)
{
    for (int n = 0; n < NN; n++) {
        int got = use_obj(h.findObject(std::string(NAMES[n])), "findObject");
        MC_CHECK(got == r.obj[n], "find-mismatch", "after %s: findObject(%s) gives object %d, reference says %d", after, NAMES[n], got, r.obj[n]);
        if (!r.tainted[n])
            for (int t = 1; t <= 2; t++) {
                bool g = h.checkObjectType(NAMES[n], t);
                bool e = r.has_tags[n] && (r.tags[n] & (1u << t));
                MC_CHECK(g == e, "type-mismatch", "after %s: checkObjectType(%s,%d) gives %d, reference says %d", after, NAMES[n], t, g, e);
            }
    }
    Ref rc = r;
    Res e = ref_apply(rc, Op{GETOBJS, 0, 0}, 0);
    Res g = real_apply(h, Op{GETOBJS, 0, 0}, 0);
    MC_CHECK(g.set == e.set && g.count == e.count, "getObjects-mismatch", "after %s: getObjects returns %d objects (set %x), reference %d (set %x)",
             after, g.count, g.set, e.count, e.set);
    MC_CHECK(h.empty() == (e.count == 0), "empty-mismatch", "after %s: empty() disagrees with the reference", after);
    for (int sel = 0; sel <= 3; sel++) {
        Res e2 = ref_apply(rc, Op{FINDPRED, (int8_t)sel, 0}, 0);
        Res g2 = real_apply(h, Op{FINDPRED, (int8_t)sel, 0}, 0);
        MC_CHECK(e2.v == g2.v, "findpred-mismatch", "after %s: findObject(pred %d) gives %d, reference %d", after, sel, g2.v, e2.v);
        for (int t = 1; t <= 2; t++) {
            Res e3 = ref_apply(rc, Op{FINDPRED_T, (int8_t)sel, (int8_t)t}, 0);
            Res g3 = real_apply(h, Op{FINDPRED_T, (int8_t)sel, (int8_t)t}, 0);
            if (!any_taint(r)) {
                MC_CHECK(e3.v == g3.v, "findpredtype-mismatch", "after %s: findObject(pred %d,type %d) gives %d, reference %d", after, sel,
                         t, g3.v, e3.v);
            } else {
                // tags were added for a name that was not stored: whether THAT entry carries the tag is unspecified; every
                // other entry is definite, so the result must be one of the objects that reading allows
                uint32_t ok = allowed_typed(r, sel, t);
                MC_CHECK(g3.v >= 0 && g3.v < 32 && (ok & (1u << g3.v)), "findpredtype-mismatch",
                         "after %s: findObject(pred %d,type %d) returned object %d; allowed (bit set of ids, bit 0 = null): %x", after, sel, t,
                         g3.v, ok);
            }
        }
    }
}

// concurrent histories
struct HistE {
    Op op;
    int newid;
    Res res;
    uint64_t inv, ret;
};
HistE g_hist[12];
int g_nhist;

bool res_equal(const Op& o, const Res& a, const Res& b)
{
    if (o.k == GETOBJS) return a.set == b.set && a.count == b.count;
    if (o.k == ADDTYPE) return true;
    return a.v == b.v;
}
bool lin_search(int mask, const Ref& st, int n)
{
    if (mask == (1 << n) - 1) return true;
    for (int i = 0; i < n; i++) {
        if (mask & (1 << i)) continue;
        bool ready = true;
        for (int j = 0; j < n; j++)
            if (j != i && !(mask & (1 << j)) && g_hist[j].ret < g_hist[i].inv) ready = false;
        if (!ready) continue;
        Ref ns = st;
        Res e = ref_apply(ns, g_hist[i].op, g_hist[i].newid);
        const Op& op = g_hist[i].op;
        // tags added for a name that was not stored at that moment: tag queries are unspecified from then on
        bool unspecified = (op.k == CHECK && st.tainted[op.a]) || (op.k == FINDPRED_T && any_taint(st));
        if (op.k == FINDPRED_T && any_taint(st)) {
            int v = g_hist[i].res.v;
            if (!(v >= 0 && v < 32 && (allowed_typed(st, op.a, op.b) & (1u << v)))) continue;
        }
        if (!unspecified && !res_equal(op, e, g_hist[i].res)) continue;
        if (lin_search(mask | (1 << i), ns, n)) return true;
    }
    return false;
}

void body(const Prog& p)
{
    memset(g_alive, 0, sizeof g_alive);
    g_next_id = 1;
    g_nhist = 0;
    size_t base_blocks = live_blocks();
    SOH* h = new SOH();
    g_keep = p.keep_refs ? new Keep() : nullptr;
    const bool solo = p.threads.size() == 1;
    {
        std::vector<int> ids;
        for (auto& ops : p.threads) {
            ids.push_back(spawn([h, ops, solo] {
                Ref ref;
                for (auto& o : ops) {
                    int newid = (o.k == ADD || o.k == ADDT) ? g_next_id++ : 0;
                    if (solo) {
                        Res e = ref_apply(ref, o, newid);
                        Res g = real_apply(*h, o, newid);
                        std::string t = optext(o);
                        bool skip = (o.k == CHECK && ref.tainted[o.a]) || (o.k == FINDPRED_T && any_taint(ref));
                        if (o.k == FINDPRED_T && any_taint(ref))
                            MC_CHECK(g.v >= 0 && g.v < 32 && (allowed_typed(ref, o.a, o.b) & (1u << g.v)), "result-mismatch",
                                     "%s returned object %d which the reference does not allow", t.c_str(), g.v);
                        if (!skip)
                            MC_CHECK(res_equal(o, e, g), "result-mismatch", "%s returned %d, reference says %d", t.c_str(), g.v, e.v);
                        compare_surface(*h, ref, t.c_str());
                    } else {
                        int hi = g_nhist++;
                        g_hist[hi].op = o;
                        g_hist[hi].newid = newid;
                        g_hist[hi].inv = stamp();
                        g_hist[hi].ret = ~uint64_t(0);
                        Res g = real_apply(*h, o, newid);
                        g_hist[hi].res = g;
                        g_hist[hi].ret = stamp();
                        observe((uint64_t)g.v * 7 + g.set);
                    }
                }
            }));
        }
        for (int id : ids) join(id);
    }
    if (!solo) {
        Ref init;
        MC_CHECK(lin_search(0, init, g_nhist), "not-linearizable", "concurrent history of %d calls has no sequential explanation against the reference map", g_nhist);
    }
    // drain and destroy (the destructor waits a bounded time for a non-empty map)
    for (int n = 0; n < NN; n++) (void)h->removeObject(std::string(NAMES[n]));
    delete h;
    delete g_keep;
    g_keep = nullptr;
    for (int i = 1; i < MAXID; i++) MC_CHECK(!g_alive[i], "object-leak", "object %d still alive after the holder was emptied and destroyed", i);
    MC_CHECK(live_blocks() == base_blocks, "leak", "%zu arena blocks not freed", live_blocks() - base_blocks);
}

// Scale: a map with many names, checked against std::map after every phase (thresholds, caches, ordering among many
// entries); one client, every call compared with the reference.
void body_scale(int n)
{
    memset(g_alive, 0, sizeof g_alive);
    size_t base_blocks = live_blocks();
    SOH* h = new SOH();
    g_keep = nullptr;
    struct E {
        int id;
        int tag;  // 0 = none
    };
    std::map<std::string, E> ref;
    auto name = [](int i) {
        char b[64];
        snprintf(b, sizeof b, i % 5 == 4 ? "n%02d_with_a_suffix_longer_than_the_small_string_buffer" : "n%02d", i);
        return std::string(b);
    };
    auto check_all = [&](const char* when) {
        for (int i = 0; i < n + 2; i++) {
            std::string nm = i < n ? name(i) : (i == n ? std::string("zz_alias") : std::string("absent"));
            auto it = ref.find(nm);
            int got = use_obj(h->findObject(nm), "findObject");
            MC_CHECK(got == (it == ref.end() ? 0 : it->second.id), "find-mismatch", "%s: findObject(%s) gives %d", when, nm.c_str(), got);
            for (int t = 1; t <= 3; t++)
                MC_CHECK(h->checkObjectType(nm, t) == (it != ref.end() && it->second.tag == t), "type-mismatch",
                         "%s: checkObjectType(%s,%d) disagrees with the reference", when, nm.c_str(), t);
        }
        auto v = h->getObjects();
        MC_CHECK(v.size() == ref.size(), "getObjects-mismatch", "%s: getObjects returns %zu objects, reference has %zu", when, v.size(), ref.size());
        for (auto& sp : v) (void)use_obj(sp, "getObjects");
        MC_CHECK(h->empty() == ref.empty(), "empty-mismatch", "%s: empty() disagrees with the reference", when);
        for (int t = 1; t <= 3; t++) {
            int expect = 0;
            for (auto& kv : ref)
                if (kv.second.tag == t && kv.second.id % 2 == 1) {
                    expect = kv.second.id;
                    break;
                }
            int got = use_obj(h->findObject([](const SP& p) { return p->id % 2 == 1; }, t), "findObject(pred,type)");
            MC_CHECK(got == expect, "findpredtype-mismatch", "%s: findObject(odd id, type %d) gives %d, reference %d", when, t, got, expect);
        }
    };
    for (int i = 0; i < n; i++) {
        int id = i + 1;
        bool ok = (i % 2 == 0) ? h->addObject(name(i), std::make_shared<Obj>(id), i % 3 + 1) : h->addObject(name(i), std::make_shared<Obj>(id));
        MC_CHECK(ok, "result-mismatch", "addObject(%s) refused on a fresh name", name(i).c_str());
        ref[name(i)] = E{id, i % 2 == 0 ? i % 3 + 1 : 0};
    }
    MC_CHECK(!h->addObject(name(n / 2), std::make_shared<Obj>(n + 5)), "result-mismatch", "duplicate addObject accepted");
    check_all("after the adds");
    MC_CHECK(h->copyObject(name(0), "zz_alias"), "result-mismatch", "copyObject refused");
    ref["zz_alias"] = ref[name(0)];
    for (int i = 0; i < n; i += 3) {
        MC_CHECK(h->removeObject(name(i)), "result-mismatch", "removeObject(%s) failed", name(i).c_str());
        ref.erase(name(i));
    }
    check_all("after removing every third name");
    for (;;) {
        bool r = h->removeObject([](const SP& p) { return p->id % 2 == 0; });
        auto it = ref.begin();
        while (it != ref.end() && it->second.id % 2 != 0) ++it;
        MC_CHECK(r == (it != ref.end()), "result-mismatch", "removeObject(even id) returned %d", (int)r);
        if (!r) break;
        ref.erase(it);  // the first match in name order
    }
    check_all("after removing all even ids");
    while (!ref.empty()) {
        MC_CHECK(h->removeObject(ref.begin()->first), "result-mismatch", "removeObject failed while draining");
        ref.erase(ref.begin());
    }
    check_all("after draining");
    delete h;
    for (int i = 1; i < MAXID; i++) MC_CHECK(!g_alive[i], "object-leak", "object %d still alive after the holder was emptied and destroyed", i);
    MC_CHECK(live_blocks() == base_blocks, "leak", "%zu arena blocks not freed", live_blocks() - base_blocks);
}

void make_items(const Options& o, std::vector<Item>& items)
{
    bool thorough = o.tier == "thorough";
    for (int n : {10, 33, 50}) {
        if (n == 50 && !thorough) continue;
        Item it;
        it.name = "SearchableObjectHolder scale: " + std::to_string(n) + " names, typed and untyped adds, alias, removal by name and by predicate, every query against std::map";
        it.body = [n] { body_scale(n); };
        it.bounds = hx::tier_bounds(o, 0, 0);
        it.bounds.max_steps = 200000;
        items.push_back(it);
    }
    auto add = [&](const Prog& p, int Pq, int Pt) {
        Item it;
        it.name = text(p);
        it.body = [p] { body(p); };
        it.bounds = hx::tier_bounds(o, Pq, Pt);
        items.push_back(it);
    };
    // ---- sequential part: mutating alphabet, full query surface after every step
    std::vector<Op> mut;
    for (int n = 0; n < NN; n++) mut.push_back(Op{ADD, (int8_t)n, 0});
    for (int n = 0; n < NN; n++) mut.push_back(Op{ADDT, (int8_t)n, 1});
    for (int n = 0; n < NN; n++) mut.push_back(Op{ADDTYPE, (int8_t)n, 2});
    mut.push_back(Op{COPY, 0, 1});
    mut.push_back(Op{COPY, 0, 2});
    mut.push_back(Op{COPY, 2, 0});
    for (int n = 0; n < NN; n++) mut.push_back(Op{REMOVE, (int8_t)n, 0});
    for (int s = 0; s <= 3; s++) mut.push_back(Op{RMPRED, (int8_t)s, 0});
    {
        int depth = thorough ? 4 : 3;
        auto seqs = hx::sequences((int)mut.size(), depth);
        for (auto& s : seqs) {
            Prog p;
            std::vector<Op> t;
            for (int i : s) t.push_back(mut[i]);
            p.threads.push_back(t);
            add(p, 0, 0);
            if (s.size() <= 3) {
                p.keep_refs = true;
                add(p, 0, 0);
            }
        }
    }
    // ---- concurrent part
    std::vector<Op> al = {Op{ADD, 0, 0},      Op{ADDT, 0, 1},     Op{ADDT, 2, 1},       Op{COPY, 0, 1},   Op{REMOVE, 0, 0},
                          Op{RMPRED, 1, 0},   Op{RMPRED, 3, 0},   Op{FIND, 0, 0},       Op{FINDPRED, 3, 0}, Op{FINDPRED_T, 3, 1},
                          Op{CHECK, 0, 1},    Op{GETOBJS, 0, 0},  Op{EMPTY, 0, 0},    Op{ADDTYPE, 0, 1}};
    auto seq1 = hx::sequences((int)al.size(), 1);
    auto seq2 = hx::sequences((int)al.size(), 2);
    auto conv = [&](const std::vector<int>& s) {
        std::vector<Op> t;
        for (int i : s) t.push_back(al[i]);
        return t;
    };
    auto has_mut = [&](const Prog& p) {
        int m = 0;
        for (auto& t : p.threads)
            for (auto& o2 : t)
                if (o2.k <= RMPRED) m++;
        return m >= 1;
    };
    // a prefix thread that stores something first makes removal/find interesting
    hx::multisets((int)seq2.size(), 2, [&](const std::vector<int>& idx) {
        if (seq2[idx[0]].size() + seq2[idx[1]].size() < 3 && !thorough) {
        }
        Prog p;
        p.threads = {conv(seq2[idx[0]]), conv(seq2[idx[1]])};
        if (!has_mut(p)) return;
        // quick: at least one thread starts with an add so that the map is not trivially empty
        bool starts_add = p.threads[0][0].k <= ADDT || p.threads[1][0].k <= ADDT;
        if (!starts_add) return;
        if (!thorough && p.threads[0].size() + p.threads[1].size() == 4) {
            // quick: one client stores then does something, the other mutates twice
            bool a0 = p.threads[0][0].k <= ADDT, a1 = p.threads[1][0].k <= ADDT;
            int muts = 0;
            for (auto& t : p.threads)
                for (auto& o2 : t)
                    if (o2.k <= RMPRED) muts++;
            if (!(a0 && a1) && muts < 4) return;
        }
        p.keep_refs = (items.size() % 2) == 1;
        add(p, 3, 4);
    });
    hx::multisets((int)seq1.size(), 3, [&](const std::vector<int>& idx) {
        Prog p;
        p.threads = {conv(seq1[idx[0]]), conv(seq1[idx[1]]), conv(seq1[idx[2]])};
        if (!has_mut(p)) return;
        add(p, 3, 4);
    });
    if (thorough) {
        hx::multisets((int)seq1.size(), 2, [&](const std::vector<int>& idx) {
            for (auto& s : seq2) {
                if (s.size() != 2 || al[s[0]].k > ADDT) continue;
                Prog p;
                p.threads = {conv(s), conv(seq1[idx[0]]), conv(seq1[idx[1]])};
                add(p, 3, 3);
            }
        });
    }
}
}  // namespace

int main(int argc, char** argv)
{
    return run_main(argc, argv, "C17", "C17", make_items);
}
