// C09: Barrier releases a generation only when every participant has arrived
#include <algorithm>
#include "common.h"
#include "gmlc/concurrency/Barrier.hpp"

using gmlc::concurrency::Barrier;
using namespace mcrt;

namespace {
constexpr int MAXG = 4;
int g_arrived[MAXG + 1];
int g_returned[MAXG + 1];

struct TProg {
    int gens;  // number of barrier calls this thread makes
    bool drop;  // last call is wait_and_drop
};
struct Prog {
    int G;
    bool points;  // scheduling point between consecutive calls
    std::vector<TProg> threads;
};

std::string text(const Prog& p)
{
    std::string s = "Barrier(" + std::to_string(p.threads.size()) + ") G=" + std::to_string(p.G) +
        (p.points ? " [point between calls]" : " [immediate re-entry]");
    for (auto& t : p.threads) {
        s += " |";
        for (int g = 1; g <= t.gens; g++) s += (g == t.gens && t.drop) ? " wait_and_drop" : " wait";
    }
    return s;
}

void body(const Prog& p)
{
    memset(g_arrived, 0, sizeof g_arrived);
    memset(g_returned, 0, sizeof g_returned);
    const int N = (int)p.threads.size();
    // participants of generation g = threads making at least g calls
    int part[MAXG + 2] = {0};
    for (int g = 1; g <= p.G; g++)
        for (auto& t : p.threads)
            if (t.gens >= g) part[g]++;
    Barrier* B = new Barrier((size_t)N);
    std::vector<int> ids;
    for (auto& tp : p.threads) {
        ids.push_back(spawn([B, tp, &part, pts = p.points] {
            for (int g = 1; g <= tp.gens; g++) {
                ++g_arrived[g];
                if (g == tp.gens && tp.drop) B->wait_and_drop();
                else B->wait();
                MC_CHECK(g_arrived[g] == part[g], "early-release",
                         "call %d of a participant returned when %d of %d participants of generation %d had arrived", g,
                         g_arrived[g], part[g], g);
                ++g_returned[g];
                observe((uint64_t)g * 16 + g_returned[g]);
                if (pts) point();
            }
        }));
    }
    for (int id : ids) join(id);
    for (int g = 1; g <= p.G; g++)
        MC_CHECK(g_returned[g] == part[g], "not-released", "generation %d: %d of %d participants returned", g,
                 g_returned[g], part[g]);
    delete B;
}

void make_items(const Options& o, std::vector<Item>& items)
{
    bool thorough = o.tier == "thorough";
    for (int G = 2; G <= (thorough ? 4 : 3); G++) {
        std::vector<TProg> cfg;
        for (int g = 1; g <= G; g++) {
            if (g < G) cfg.push_back(TProg{g, true});
            else {
                cfg.push_back(TProg{g, false});
                cfg.push_back(TProg{g, true});
            }
        }
        for (int N = 2; N <= (thorough ? 4 : 3); N++) {
            if (N == 4 && G == 4) continue;
            hx::multisets((int)cfg.size(), N, [&](const std::vector<int>& idx) {
                Prog p;
                p.G = G;
                bool stays = false;
                for (int i : idx) {
                    p.threads.push_back(cfg[i]);
                    if (cfg[i].gens == G) stays = true;
                }
                if (!stays) return;
                for (int pts = 0; pts < 2; pts++) {
                    p.points = pts;
                    Item it;
                    it.name = text(p);
                    it.body = [p] { body(p); };
                    it.bounds = hx::tier_bounds(o, 3, 4);
                    it.bounds.S = 2;
                    items.push_back(it);
                }
            });
        }
    }
}
}  // namespace

int main(int argc, char** argv)
{
    return run_main(argc, argv, "C09", "C09", make_items);
}
