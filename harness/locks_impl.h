// locks_impl.h: definitions for locks.h (include once, in the harness TU)
#pragma once
#include "locks.h"

namespace lk {
Hist g_hist[48];
int g_nhist;
const char* opc_name[NOPC] = {"lock+rmw",  "lock+rmw+unlock()", "try_lock",  "try_lock_for", "try_lock_until", "load",
                              "store",     "operator=",         "modify",    "modify(ret)",  "lock_shared",
                              "try_lock_shared", "try_lock_shared_for", "try_lock_shared_until", "const lock()", "read",
                              "read(ret)", "modify_detach",     "modify_async", "exchange",   "compare_exchange", "operator T()", "try_lock else same handle=lock()",
                              "try_lock_shared else same handle=lock_shared()", "lock+rmw, then handle=other.lock() (hand-over-hand)",
                              "lock_shared, then handle=other.lock_shared() (hand-over-hand)", "try_lock(_for) then unlock() on the handle, null or not",
                              "try_lock_shared(_for) then unlock() on the handle, null or not"};

// ---------------------------------------------------------------- linearizability
static char g_linmsg[400];
const char* linearizable(int init, int final_value)
{
    int n = g_nhist;
    if (n > 12) return "history too long";
    // DFS over subsets with memo on (mask,state): states are small ints
    struct Frame {
        int mask;
        int state;
    };
    static Frame stack[4096];
    int sp = 0;
    static unsigned char seen[1 << 12][16];
    for (int m = 0; m < (1 << n); m++) memset(seen[m], 0, 16);
    stack[sp++] = Frame{0, init};
    int full = (1 << n) - 1;
    while (sp > 0) {
        Frame f = stack[--sp];
        if (f.mask == full) {
            if (final_value < 0 || f.state == final_value) return nullptr;
            continue;
        }
        int sidx = f.state & 15;
        if (seen[f.mask][sidx] & (1u << ((f.state >> 4) & 7))) continue;
        seen[f.mask][sidx] |= (1u << ((f.state >> 4) & 7));
        for (int i = 0; i < n; i++) {
            if (f.mask & (1 << i)) continue;
            const Hist& h = g_hist[i];
            // real-time order: every op that returned before h was invoked must be done
            bool ready = true;
            for (int j = 0; j < n; j++) {
                if (j == i || (f.mask & (1 << j))) continue;
                // a deferred modification may take effect after its call returned, but not later than the first access
                // made once every client thread has finished and no handle is held (g_quiesce; INF while unknown)
                // (between two deferred modifications real time does count: one that returned before the other began
                // is applied first)
                uint64_t jret = (g_hist[j].async && !h.async) ? g_quiesce : g_hist[j].ret;
                if (jret < h.inv) ready = false;
            }
            if (!ready) continue;
            int s = f.state, ns = s;
            bool okk = true;
            switch (h.kind) {
                case HK_RMW:
                    okk = (h.res == s);
                    ns = s + 1;
                    break;
                case HK_READ:
                    okk = (h.res == s);
                    break;
                case HK_WRITE:
                    ns = h.arg;
                    break;
                case HK_XCHG:
                    okk = (h.res == s);
                    ns = h.arg;
                    break;
                case HK_CAS:
                    if (h.ok) {
                        okk = (s == h.arg);
                        ns = h.arg2;
                    } else {
                        okk = (s != h.arg) && (h.res == s);
                    }
                    break;
                case HK_MAYBE_WRITE:
                    // an operation that failed with an exception may or may not have written
                    if (sp < 4095) stack[sp++] = Frame{f.mask | (1 << i), h.arg};
                    break;
                default:
                    break;
            }
            if (!okk) continue;
            if (sp < 4095) stack[sp++] = Frame{f.mask | (1 << i), ns};
        }
    }
    // build a readable message
    int off = snprintf(g_linmsg, sizeof g_linmsg, "history is not linearizable w.r.t. a single register (init %d%s):", init,
                       final_value >= 0 ? ", observed final value differs" : "");
    for (int i = 0; i < n && off < 340; i++) {
        const Hist& h = g_hist[i];
        off += snprintf(g_linmsg + off, sizeof g_linmsg - off, " [T%d %s arg=%d res=%d ok=%d]", h.fiber, opc_name[h.op], h.arg,
                        h.res, h.ok);
    }
    if (final_value >= 0) snprintf(g_linmsg + off, sizeof g_linmsg - off, " final=%d", final_value);
    return g_linmsg;
}

// ---------------------------------------------------------------- op bodies
using namespace std::chrono_literals;

// what a client does with an exclusive handle: read-modify-write the pair
template<class H>
void use_exclusive(H& h, int hi, const void* mtx, bool enabled)
{
    if (!h) {
        h_end(hi, HK_NONE, 0, 0, 0);
        return;
    }
    (void)mtx;
    (void)enabled;
    hx::WriteWin w(&*h, "exclusive handle");
    int pre = h->a;
    MC_CHECK(h->a == h->b, "torn-read", "exclusive holder sees a half-written value (a=%d b=%d)", h->a, h->b);
    ++h->a;
    point();
    ++h->b;
    h_end(hi, HK_RMW, 0, pre, 1);
}
template<class H>
void use_shared(H& h, int hi, const void* mtx, bool enabled)
{
    if (!h) {
        h_end(hi, HK_NONE, 0, 0, 0);
        return;
    }
    (void)mtx;
    (void)enabled;
    int v = hx::read_pair(*h, "shared handle");
    if (g_hold[self()]) (*g_hold[self()])();
    point();
    int v2 = hx::read_pair(*h, "shared handle (re-read)");
    MC_CHECK(v == v2, "changed-under-handle", "value changed from %d to %d under a shared handle", v, v2);
    h_end(hi, HK_READ, 0, v, 1);
}

template<class W, class M>
void add_exclusive_ops(Instance& in, bool enabled)
{
    in.ops[X_LOCK] = [enabled](void* p, int) {
        W& w = *(W*)p;
        int hi = h_begin(X_LOCK);
        auto h = w.lock();
        MC_CHECK(bool(h), "null-handle", "lock() returned a null handle");
        use_exclusive(h, hi, mutex_of(&w), enabled);
    };
    in.ops[X_LOCK_UNLOCK] = [enabled](void* p, int) {
        W& w = *(W*)p;
        int hi = h_begin(X_LOCK_UNLOCK);
        auto h = w.lock();
        MC_CHECK(bool(h), "null-handle", "lock() returned a null handle");
        use_exclusive(h, hi, mutex_of(&w), enabled);
        h.unlock();
        MC_CHECK(!bool(h), "unlock-not-null", "handle still non-null after unlock()");
    };
    in.ops[X_TRY] = [enabled](void* p, int) {
        W& w = *(W*)p;
        int hi = h_begin(X_TRY);
        auto h = w.try_lock();
        use_exclusive(h, hi, mutex_of(&w), enabled);
    };
    in.ops[X_TRY_UNLOCK] = [enabled](void* p, int) {
        // unlock() is called on whatever the try form returned: on a null handle it must not touch the mutex
        W& w = *(W*)p;
        int hi = h_begin(X_TRY_UNLOCK);
        auto h = [&] {
            if constexpr (is_timed<M>::value) return w.try_lock_for(1ms);
            else return w.try_lock();
        }();
        use_exclusive(h, hi, mutex_of(&w), enabled);
        h.unlock();
        MC_CHECK(!bool(h), "unlock-not-null", "handle still non-null after unlock()");
        if (enabled) MC_CHECK(holds(mutex_of(&w)) == 0, "unlock-kept-lock", "lock still held by this thread after unlock()");
    };
    in.ops[X_HANDOVER] = [enabled](void* p, int) {
        // lock coupling: the handle of this wrapper is move-assigned from a lock() of a second wrapper; the
        // assignment releases this wrapper's lock (no leaked lock: other threads must be able to go on)
        W& w = *(W*)p;
        W& o = *(W*)g_other;
        int hi = h_begin(X_HANDOVER);
        auto h = w.lock();
        MC_CHECK(bool(h), "null-handle", "lock() returned a null handle");
        use_exclusive(h, hi, mutex_of(&w), enabled);
        if (hi & 1) {
            h = o.lock();  // from a temporary
        } else {
            auto h2 = o.lock();  // from a named handle that stays in scope
            h = std::move(h2);
            if (enabled) MC_CHECK(holds(mutex_of(&w)) == 0, "leaked-lock", "after h = std::move(h2) this thread still holds the first wrapper's lock (source handle still in scope)");
            point();
        }
        MC_CHECK(bool(h) && &*h == obj_of(&o), "handover-target", "after h = other.lock() the handle does not refer to the other object");
        if (enabled) MC_CHECK(holds(mutex_of(&w)) == 0, "leaked-lock", "after h = other.lock() this thread still holds the first wrapper's lock");
    };
    in.ops[X_RETRY] = [enabled](void* p, int) {
        // a handle that came back null from a try is reused for a blocking acquisition
        W& w = *(W*)p;
        int hi = h_begin(X_RETRY);
        auto h = w.try_lock();
        if (!h) h = w.lock();
        MC_CHECK(bool(h), "null-handle", "handle null after being assigned lock()");
        use_exclusive(h, hi, mutex_of(&w), enabled);
    };
    if constexpr (is_timed<M>::value) {
        in.ops[X_TRY_FOR] = [enabled](void* p, int) {
            W& w = *(W*)p;
            int hi = h_begin(X_TRY_FOR);
            auto h = w.try_lock_for(5ms);
            use_exclusive(h, hi, mutex_of(&w), enabled);
        };
        in.ops[X_TRY_UNTIL] = [enabled](void* p, int) {
            W& w = *(W*)p;
            int hi = h_begin(X_TRY_UNTIL);
            auto h = w.try_lock_until(std::chrono::steady_clock::now() + 5ms);
            use_exclusive(h, hi, mutex_of(&w), enabled);
        };
    }
}

template<class W>
void add_load_store_ops(Instance& in)
{
    in.ops[LOAD] = [](void* p, int) {
        W& w = *(W*)p;
        int hi = h_begin(LOAD);
        Pair v = w.load();
        MC_CHECK(v.a == v.b, "torn-read", "load() returned a half-written value (a=%d b=%d)", v.a, v.b);
        h_end(hi, HK_READ, 0, v.a);
    };
    in.ops[STORE] = [](void* p, int k) {
        W& w = *(W*)p;
        int hi = h_begin(STORE);
        Pair nv(k);
        w.store(nv);
        h_end(hi, HK_WRITE, k, 0);
    };
    in.ops[ASSIGN] = [](void* p, int k) {
        W& w = *(W*)p;
        int hi = h_begin(ASSIGN);
        Pair nv(k);
        w = nv;
        h_end(hi, HK_WRITE, k, 0);
    };
}

template<class W>
void add_convert_op(Instance& in)
{
    in.ops[CONVERT] = [](void* p, int) {
        const W& w = *(const W*)p;
        int hi = h_begin(CONVERT);
        Pair v = w;  // implicit conversion operator
        MC_CHECK(v.a == v.b, "torn-read", "operator T() returned a half-written value (a=%d b=%d)", v.a, v.b);
        h_end(hi, HK_READ, 0, v.a);
    };
}

template<class W, class M, bool with_const_lock>
void add_shared_ops(Instance& in, bool enabled)
{
    in.has_shared_side = true;
    in.ops[S_LOCK] = [enabled](void* p, int) {
        const W& w = *(const W*)p;
        int hi = h_begin(S_LOCK);
        auto h = w.lock_shared();
        MC_CHECK(bool(h), "null-handle", "lock_shared() returned a null handle");
        use_shared(h, hi, mutex_of(&w), enabled);
    };
    in.ops[S_TRY] = [enabled](void* p, int) {
        const W& w = *(const W*)p;
        int hi = h_begin(S_TRY);
        auto h = w.try_lock_shared();
        use_shared(h, hi, mutex_of(&w), enabled);
    };
    in.ops[S_TRY_UNLOCK] = [enabled](void* p, int) {
        const W& w = *(const W*)p;
        int hi = h_begin(S_TRY_UNLOCK);
        auto h = [&] {
            if constexpr (is_timed<M>::value) return w.try_lock_shared_for(1ms);
            else return w.try_lock_shared();
        }();
        use_shared(h, hi, mutex_of(&w), enabled);
        h.unlock();
        MC_CHECK(!bool(h), "unlock-not-null", "handle still non-null after unlock()");
        if (enabled) MC_CHECK(holds(mutex_of(&w)) == 0, "unlock-kept-lock", "lock still held by this thread after unlock()");
    };
    in.ops[S_HANDOVER] = [enabled](void* p, int) {
        const W& w = *(const W*)p;
        const W& o = *(const W*)g_other;
        int hi = h_begin(S_HANDOVER);
        auto h = w.lock_shared();
        MC_CHECK(bool(h), "null-handle", "lock_shared() returned a null handle");
        use_shared(h, hi, mutex_of(&w), enabled);
        if (hi & 1) {
            h = o.lock_shared();
        } else {
            auto h2 = o.lock_shared();
            h = std::move(h2);
            if (enabled) MC_CHECK(holds(mutex_of(&w)) == 0, "leaked-lock", "after h = std::move(h2) this thread still holds the first wrapper's lock (source handle still in scope)");
            point();
        }
        MC_CHECK(bool(h) && &*h == obj_of(&o), "handover-target", "after h = other.lock_shared() the handle does not refer to the other object");
        if (enabled) MC_CHECK(holds(mutex_of(&w)) == 0, "leaked-lock", "after h = other.lock_shared() this thread still holds the first wrapper's lock");
    };
    in.ops[S_RETRY] = [enabled](void* p, int) {
        const W& w = *(const W*)p;
        int hi = h_begin(S_RETRY);
        auto h = w.try_lock_shared();
        if (!h) h = w.lock_shared();
        MC_CHECK(bool(h), "null-handle", "handle null after being assigned lock_shared()");
        use_shared(h, hi, mutex_of(&w), enabled);
    };
    if constexpr (is_timed<M>::value) {
        in.ops[S_TRY_FOR] = [enabled](void* p, int) {
            const W& w = *(const W*)p;
            int hi = h_begin(S_TRY_FOR);
            auto h = w.try_lock_shared_for(5ms);
            use_shared(h, hi, mutex_of(&w), enabled);
        };
        in.ops[S_TRY_UNTIL] = [enabled](void* p, int) {
            const W& w = *(const W*)p;
            int hi = h_begin(S_TRY_UNTIL);
            auto h = w.try_lock_shared_until(std::chrono::steady_clock::now() + 5ms);
            use_shared(h, hi, mutex_of(&w), enabled);
        };
    }
    if constexpr (with_const_lock) {
        {
            in.ops[S_CONST_LOCK] = [enabled](void* p, int) {
                const W& w = *(const W*)p;
                int hi = h_begin(S_CONST_LOCK);
                auto h = w.lock();
                MC_CHECK(bool(h), "null-handle", "const lock() returned a null handle");
                use_shared(h, hi, mutex_of(&w), enabled);
            };
        }
    }
}

template<class M, class = void>
struct has_lock_shared: std::false_type {};
template<class M>
struct has_lock_shared<M, std::void_t<decltype(std::declval<M&>().lock_shared())>>: std::true_type {};
template<class M>
constexpr bool shared_capable_v = has_lock_shared<M>::value;

template<class W, class = void>
struct has_lock_m: std::false_type {};
template<class W>
struct has_lock_m<W, std::void_t<decltype(std::declval<W&>().lock())>>: std::true_type {};
template<class W, class = void>
struct has_lock_shared_m: std::false_type {};
template<class W>
struct has_lock_shared_m<W, std::void_t<decltype(std::declval<const W&>().lock_shared())>>: std::true_type {};

// one acquisition through the public interface tells which lock belongs to the wrapper and where the object is
template<class W>
void* probe_wrapper(W* w)
{
    WInfo& wi = winfo_of(w);
    hx::g_no_faults = true;  // the probe is the harness's own call, not one of the client operations under test
    wi.mtx = hx::probe_lock([&] {
        if constexpr (has_lock_m<W>::value) {
            auto h = w->lock();
            if (h) wi.obj = &*h;
        } else if constexpr (has_lock_shared_m<W>::value) {
            auto h = w->lock_shared();
            if (h) wi.obj = &*h;
        } else {
            (void)w->load();
        }
    });
    hx::g_no_faults = false;
    return (void*)w;
}

template<class W>
void basic(Instance& in, const std::string& name)
{
    in.name = name;
    in.create = [] { return probe_wrapper(new W(0)); };
    in.destroy = [](void* p) {
        forget_wrapper(p);
        delete (W*)p;
    };
    in.mutex_addr = [](void* p) { return mutex_of(p); };
    in.obj_addr = [](void* p) { return obj_of(p); };
}
template<class W>
void basic_opt(Instance& in, const std::string& name, bool enabled)
{
    in.name = name + (enabled ? "(locking on)" : "(locking off)");
    in.enabled = enabled;
    in.create = [enabled] { return probe_wrapper(new W(enabled, 0)); };
    in.destroy = [](void* p) {
        forget_wrapper(p);
        delete (W*)p;
    };
    in.mutex_addr = [](void* p) { return mutex_of(p); };
    in.obj_addr = [](void* p) { return obj_of(p); };
}

template<class M>
void add_for_mutex(std::vector<Instance>& out, const char* mn, bool exclusive_only_types)
{
    std::string m = mn;
    if (exclusive_only_types) {
        {
            using W = lg::guarded<Pair, M>;
            Instance in;
            basic<W>(in, "guarded<Pair," + m + ">");
            add_exclusive_ops<W, M>(in, true);
            add_load_store_ops<W>(in);
            out.push_back(in);
        }
        for (int en = 1; en >= 0; --en) {
            using W = lg::guarded_opt<Pair, M>;
            Instance in;
            basic_opt<W>(in, "guarded_opt<Pair," + m + ">", en);
            add_exclusive_ops<W, M>(in, en);
            add_load_store_ops<W>(in);
            out.push_back(in);
        }
    }
    {
        using W = lg::shared_guarded<Pair, M>;
        Instance in;
        basic<W>(in, "shared_guarded<Pair," + m + ">");
        in.shared_capable = shared_capable_v<M>;
        add_exclusive_ops<W, M>(in, true);
        add_shared_ops<W, M, true>(in, true);
        out.push_back(in);
    }
    for (int en = 1; en >= 0; --en) {
        using W = lg::shared_guarded_opt<Pair, M>;
        Instance in;
        basic_opt<W>(in, "shared_guarded_opt<Pair," + m + ">", en);
        in.shared_capable = shared_capable_v<M>;
        add_exclusive_ops<W, M>(in, en);
        add_shared_ops<W, M, true>(in, en);
        out.push_back(in);
    }
    {
        using W = lg::ordered_guarded<Pair, M>;
        Instance in;
        basic<W>(in, "ordered_guarded<Pair," + m + ">");
        in.shared_capable = shared_capable_v<M>;
        add_shared_ops<W, M, false>(in, true);
        add_load_store_ops<W>(in);
        add_convert_op<W>(in);
        in.ops[MODIFY] = [](void* p, int) {
            W& w = *(W*)p;
            int hi = h_begin(MODIFY);
            int pre = -1;
            w.modify([&](Pair& x) {
                may_throw(hx::SITE_FUNC);
                hx::WriteWin win(&x, "modify functor");
                pre = x.a;
                ++x.a;
                point();
                ++x.b;
            });
            h_end(hi, HK_RMW, 0, pre);
        };
        in.ops[MODIFY_RET] = [](void* p, int) {
            W& w = *(W*)p;
            int hi = h_begin(MODIFY_RET);
            int pre = w.modify([&](Pair& x) {
                may_throw(hx::SITE_FUNC);
                hx::WriteWin win(&x, "modify functor");
                int v = x.a;
                ++x.a;
                point();
                ++x.b;
                return v;
            });
            h_end(hi, HK_RMW, 0, pre);
        };
        in.ops[READ] = [](void* p, int) {
            const W& w = *(const W*)p;
            int hi = h_begin(READ);
            int v = -1;
            w.read([&](const Pair& x) {
                may_throw(hx::SITE_FUNC);
                v = hx::read_pair(x, "read functor");
            });
            h_end(hi, HK_READ, 0, v);
        };
        in.ops[READ_RET] = [](void* p, int) {
            const W& w = *(const W*)p;
            int hi = h_begin(READ_RET);
            int v = w.read([&](const Pair& x) {
                may_throw(hx::SITE_FUNC);
                return hx::read_pair(x, "read functor");
            });
            h_end(hi, HK_READ, 0, v);
        };
        out.push_back(in);
    }
    {
        using W = lg::deferred_guarded<Pair, M>;
        Instance in;
        basic<W>(in, "deferred_guarded<Pair," + m + ">");
        in.shared_capable = shared_capable_v<M>;
        in.deferred = true;
        add_shared_ops<W, M, false>(in, true);
        in.ops[LOAD] = [](void* p, int) {
            W& w = *(W*)p;
            int hi = h_begin(LOAD);
            Pair v = w.load();
            MC_CHECK(v.a == v.b, "torn-read", "load() returned a half-written value (a=%d b=%d)", v.a, v.b);
            h_end(hi, HK_READ, 0, v.a);
        };
        // writers: modification that sets the value (for register histories) or increments it
        in.ops[MOD_DETACH] = [](void* p, int k) {
            W& w = *(W*)p;
            int hi = h_begin(MOD_DETACH);
            g_hist[hi].async = true;
            w.modify_detach([k](Pair& x) {
                hx::WriteWin win(&x, "deferred modification");
                x.a = k;
                point();
                x.b = k;
            });
            h_end(hi, HK_WRITE, k, 0);
        };
        in.ops[MOD_ASYNC] = [](void* p, int k) {
            W& w = *(W*)p;
            int hi = h_begin(MOD_ASYNC);
            g_hist[hi].async = true;
            auto fut = w.modify_async([k](Pair& x) {
                hx::WriteWin win(&x, "deferred modification");
                x.a = k;
                point();
                x.b = k;
                return k;
            });
            h_end(hi, HK_WRITE, k, 0);
        };
        out.push_back(in);
    }
}

std::vector<Instance> all_instances()
{
    std::vector<Instance> out;
    add_for_mutex<std::mutex>(out, "mutex", true);
    add_for_mutex<std::timed_mutex>(out, "timed_mutex", true);
    add_for_mutex<std::shared_mutex>(out, "shared_mutex", false);
    add_for_mutex<std::shared_timed_mutex>(out, "shared_timed_mutex", false);
    {
        // the mutex type is a template parameter of atomic_guarded too
        using W = lg::atomic_guarded<Pair, std::timed_mutex>;
        Instance in;
        basic<W>(in, "atomic_guarded<Pair,timed_mutex>");
        add_load_store_ops<W>(in);
        add_convert_op<W>(in);
        in.ops[EXCHANGE] = [](void* p, int k) {
            W& w = *(W*)p;
            int hi = h_begin(EXCHANGE);
            Pair old = w.exchange(Pair(k));
            MC_CHECK(old.a == old.b, "torn-read", "exchange() returned a half-written value (a=%d b=%d)", old.a, old.b);
            h_end(hi, HK_XCHG, k, old.a);
        };
        in.ops[CAS] = [](void* p, int ed) {
            W& w = *(W*)p;
            int e = ed / 4, d = ed % 4;
            int hi = h_begin(CAS);
            Pair expected(e);
            Pair desired(d);
            bool ok = w.compare_exchange(expected, desired);
            MC_CHECK(expected.a == expected.b, "torn-read", "compare_exchange reported a half-written value");
            if (ok) MC_CHECK(expected.a == e, "cas-expected-changed", "successful compare_exchange modified 'expected'");
            h_end(hi, HK_CAS, e, expected.a, ok, d);
        };
        out.push_back(in);
    }
    {
        using W = lg::atomic_guarded<Pair>;
        Instance in;
        basic<W>(in, "atomic_guarded<Pair>");
        add_load_store_ops<W>(in);
        add_convert_op<W>(in);
        in.ops[EXCHANGE] = [](void* p, int k) {
            W& w = *(W*)p;
            int hi = h_begin(EXCHANGE);
            Pair old = w.exchange(Pair(k));
            MC_CHECK(old.a == old.b, "torn-read", "exchange() returned a half-written value (a=%d b=%d)", old.a, old.b);
            h_end(hi, HK_XCHG, k, old.a);
        };
        in.ops[CAS] = [](void* p, int ed) {
            W& w = *(W*)p;
            int e = ed / 4, d = ed % 4;
            int hi = h_begin(CAS);
            Pair expected(e);
            Pair desired(d);
            bool ok = w.compare_exchange(expected, desired);
            MC_CHECK(expected.a == expected.b, "torn-read", "compare_exchange reported a half-written value");
            if (ok) MC_CHECK(expected.a == e, "cas-expected-changed", "successful compare_exchange modified 'expected'");
            h_end(hi, HK_CAS, e, expected.a, ok, d);
        };
        out.push_back(in);
    }
    return out;
}

}  // namespace lk
