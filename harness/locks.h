// locks.h: type-erased instances of the lock-based wrappers (guarded, guarded_opt,
// shared_guarded, shared_guarded_opt, ordered_guarded, deferred_guarded, atomic_guarded)
// over the mutex types, with a uniform operation table.  Used by C01/C02/C08/C15/C20.
#pragma once
#include <chrono>
#include <future>
#include <mutex>
#include <shared_mutex>
#include <type_traits>
#include "common.h"
#include "gmlc/libguarded/atomic_guarded.hpp"
#include "gmlc/libguarded/deferred_guarded.hpp"
#include "gmlc/libguarded/guarded.hpp"
#include "gmlc/libguarded/guarded_opt.hpp"
#include "gmlc/libguarded/ordered_guarded.hpp"
#include "gmlc/libguarded/shared_guarded.hpp"
#include "gmlc/libguarded/shared_guarded_opt.hpp"

namespace lk {
using namespace mcrt;
using hx::Pair;
namespace lg = gmlc::libguarded;

// ------------------------------------------------------------------ history
enum HK : uint8_t { HK_RMW, HK_READ, HK_WRITE, HK_XCHG, HK_CAS, HK_NONE, HK_MAYBE_WRITE };
struct Hist {
    uint8_t kind;
    int arg;  // value written / expected
    int arg2;  // CAS desired
    int res;  // value observed / returned
    int ok;  // CAS success, try success
    uint64_t inv, ret;
    int fiber;
    uint8_t op;
    bool async;  // effect may take place any time after invocation (deferred)
};
extern Hist g_hist[48];
extern int g_nhist;
constexpr uint64_t INF = ~uint64_t(0);

inline int h_begin(uint8_t op)
{
    int i = g_nhist++;
    g_hist[i] = Hist{HK_NONE, 0, 0, 0, 0, stamp(), INF, self(), op, false};
    return i;
}
inline void h_end(int i, uint8_t kind, int arg, int res, int ok = 1, int arg2 = 0)
{
    Hist& h = g_hist[i];
    h.kind = kind;
    h.arg = arg;
    h.arg2 = arg2;
    h.res = res;
    h.ok = ok;
    h.ret = stamp();
}

// brute-force linearizability of g_hist against a sequential int register
// starting at `init`; returns nullptr or a message.  If final >= 0 the last state
// must equal it.
const char* linearizable(int init, int final_value);

// ------------------------------------------------------------------ op codes
enum OpC : uint8_t {
    X_LOCK, X_LOCK_UNLOCK, X_TRY, X_TRY_FOR, X_TRY_UNTIL, LOAD, STORE, ASSIGN, MODIFY, MODIFY_RET,
    S_LOCK, S_TRY, S_TRY_FOR, S_TRY_UNTIL, S_CONST_LOCK, READ, READ_RET, MOD_DETACH, MOD_ASYNC,
    EXCHANGE, CAS, CONVERT, X_RETRY, S_RETRY, X_HANDOVER, S_HANDOVER, X_TRY_UNLOCK, S_TRY_UNLOCK, NOPC
};
extern const char* opc_name[NOPC];
extern uint64_t g_quiesce;  // stamp taken by the main fiber after joining all clients (deferred effects are due then)
extern void* g_other;  // a second wrapper of the same type (hand-over-hand programs)
inline bool is_shared_op(int c) { return (c >= S_LOCK && c <= READ_RET) || c == S_RETRY || c == S_HANDOVER || c == S_TRY_UNLOCK; }

struct Instance {
    std::string name;
    bool shared_capable = false;  // the mutex type supports real shared locking
    bool enabled = true;  // locking enabled (for *_opt)
    bool has_shared_side = false;
    bool deferred = false;
    std::function<void*()> create;
    std::function<void(void*)> destroy;
    std::function<const void*(void*)> mutex_addr;
    std::function<const Pair*(void*)> obj_addr;
    std::function<void(void*, int)> ops[NOPC];
    bool has(int c) const { return (bool)ops[c]; }
};

// what create() found out about a wrapper by probing it through its public interface (no private member names)
struct WInfo {
    const void* w = nullptr;
    const void* mtx = nullptr;  // the lock a handle / load takes (nullptr: none, e.g. locking disabled)
    const Pair* obj = nullptr;  // the wrapped object as seen through a handle (nullptr: no handle interface)
};
extern WInfo g_winfo[4];
inline WInfo& winfo_of(const void* w)
{
    for (auto& e : g_winfo)
        if (e.w == w) return e;
    for (auto& e : g_winfo)
        if (!e.w) {
            e = WInfo{};
            e.w = w;
            return e;
        }
    mcrt::fail("INTERNAL", "wrapper table full");
    return g_winfo[0];
}
inline const void* mutex_of(const void* w) { return winfo_of(w).mtx; }
inline const Pair* obj_of(const void* w) { return winfo_of(w).obj; }
inline void forget_wrapper(const void* w)
{
    for (auto& e : g_winfo)
        if (e.w == w) e = WInfo{};
}

std::vector<Instance> all_instances();
// per-fiber hook run while a shared handle is held (rendezvous programs)
extern std::function<void()>* g_hold[8];

template<class M, class = void>
struct is_timed: std::false_type {};
template<class M>
struct is_timed<M, std::void_t<decltype(std::declval<M&>().try_lock_for(std::chrono::milliseconds(1)))>>: std::true_type {};

}  // namespace lk
