// locks.cpp: lock-matrix harness
//   -DMODE_C01 : exclusive handles / whole-object operations are mutually exclusive
//   -DMODE_C02 : readers and writers never overlap; readers can share
//   -DMODE_C15 : whole-object operations behave as one atomic register
#define HX_MAIN
#include "locks_impl.h"

using namespace mcrt;
using namespace lk;

namespace lk {
std::function<void()>* g_hold[8];
WInfo g_winfo[4];
uint64_t g_quiesce = ~uint64_t(0);
void* g_other = nullptr;
}

namespace {
struct OpI {
    uint8_t code;
    int arg;
};
struct Prog {
    int inst;
    std::vector<std::vector<OpI>> threads;
    int rendezvous = 0;  // 1: the two threads meet inside their shared sections
    bool scale = false;  // long program: no brute-force linearizability, the final value is checked instead
};
std::vector<Instance> g_insts;

std::string text(const Prog& p)
{
    std::string s = g_insts[p.inst].name + (p.rendezvous ? " [readers rendezvous inside]" : "");
    for (auto& t : p.threads) {
        s += " |";
        for (auto& o : t) {
            s += std::string(" ") + opc_name[o.code];
            if (o.code == STORE || o.code == ASSIGN || o.code == MOD_DETACH || o.code == MOD_ASYNC || o.code == EXCHANGE)
                s += "(" + std::to_string(o.arg) + ")";
            if (o.code == CAS) s += "(" + std::to_string(o.arg / 4) + "->" + std::to_string(o.arg % 4) + ")";
        }
    }
    return s;
}

void body(const Prog& p)
{
    const Instance& in = g_insts[p.inst];
    g_nhist = 0;
    lk::g_quiesce = ~uint64_t(0);
    hx::win_reset();
    for (auto& h : lk::g_hold) h = nullptr;
    size_t base_blocks = live_blocks();
    for (auto& e : lk::g_winfo) e = lk::WInfo{};  // executions can be abandoned before destroy()
    void* w = in.create();
    bool need_other = false;
    for (auto& t : p.threads)
        for (auto& o : t)
            if (o.code == X_HANDOVER || o.code == S_HANDOVER) need_other = true;
    lk::g_other = need_other ? in.create() : nullptr;
    {
        Event ev[2];
        std::vector<int> ids;
        int ti = 0;
        for (auto& ops : p.threads) {
            int me = ti++;
            ids.push_back(spawn([&in, w, ops, me, &ev, rz = p.rendezvous] {
                std::function<void()> hook;
                if (rz) {
                    hook = [&ev, me] {
                        ev[me].set();
                        ev[1 - me].wait();
                    };
                    lk::g_hold[self()] = &hook;
                }
                for (auto& o : ops) {
                    in.ops[o.code](w, o.arg);
                }
                lk::g_hold[self()] = nullptr;
            }));
        }
        for (int id : ids) join(id);
    }
    if (p.rendezvous) {
        // both try forms must have succeeded: a reader is never refused because of another reader
        for (int i = 0; i < g_nhist; i++)
            if (is_shared_op(g_hist[i].op))
            MC_CHECK(g_hist[i].kind == HK_READ, "reader-blocked-by-reader",
                     "%s returned a null handle although only another reader held the lock", opc_name[g_hist[i].op]);
    }
    lk::g_quiesce = stamp();  // every client has returned, no handle is held: deferred modifications are due at the next access
    if (hx::g_win_shared_reads > 0) cover(1);
    // the lock must be free again
    MC_CHECK(!is_locked(in.mutex_addr(w)), "leaked-lock", "the wrapper's mutex is still locked after all handles were released");
    // final observation by the main thread (also drains deferred work)
    if (in.has(S_LOCK)) in.ops[S_LOCK](w, 0);
    else if (in.has(LOAD)) in.ops[LOAD](w, 0);
    if (in.has(X_LOCK)) in.ops[X_LOCK](w, 0);
    if (!p.scale) {
        const char* m = linearizable(0, -1);
        MC_CHECK(m == nullptr, "not-linearizable", "%s", m);
    } else {
        // one writing thread: its last write is the final value, and the quiescent read above saw it
        int last = 0;
        for (int i = 0; i < g_nhist; i++)
            if (g_hist[i].kind == HK_WRITE) last = g_hist[i].arg;
        for (int i = 0; i < g_nhist; i++)
            if (g_hist[i].fiber == 0 && g_hist[i].kind == HK_READ)
                MC_CHECK(g_hist[i].res == last, "lost-write", "read at quiescence returned %d, the last of the queued writes was %d", g_hist[i].res, last);
    }
    // the final stored value agrees with the object itself
    const Pair* obj = in.obj_addr(w);
    if (obj) MC_CHECK(obj->a == obj->b, "torn-final", "wrapped object ends half-written (a=%d b=%d)", obj->a, obj->b);
    uint64_t o = 0;
    for (int i = 0; i < g_nhist; i++) o = o * 131 + (uint64_t)(g_hist[i].res * 4 + g_hist[i].ok);
    observe(o);
    in.destroy(w);
    if (lk::g_other) {
        MC_CHECK(!is_locked(in.mutex_addr(lk::g_other)), "leaked-lock", "the second wrapper's mutex is still locked after all handles were released");
        in.destroy(lk::g_other);
        lk::g_other = nullptr;
    }
    MC_CHECK(live_blocks() == base_blocks, "leak", "%zu arena blocks not freed", live_blocks() - base_blocks);
}

#if defined(MODE_C15)
// Configuration edge: a trivially copyable payload (no user copy operations the harness could instrument). load / store /
// exchange must still be one atomic step each: the race detector sees the compiler-generated member-wise copies.
struct Pod {
    int a, b;
};
template<class W>
void pod_body(int writer_kind)
{
    W* w = new W(Pod{0, 0});
    {
        std::vector<int> ids;
        ids.push_back(spawn([w] {
            for (int i = 0; i < 2; i++) {
                Pod v = w->load();
                MC_CHECK(v.a == v.b && v.a >= 0 && v.a <= 2, "torn-read", "load() returned (%d,%d)", v.a, v.b);
                observe((uint64_t)v.a);
            }
        }));
        ids.push_back(spawn([w, writer_kind] {
            if (writer_kind == 0) {
                w->store(Pod{1, 1});
                w->store(Pod{2, 2});
            } else if (writer_kind == 1) {
                *w = Pod{1, 1};
                *w = Pod{2, 2};
            } else {
                if constexpr (std::is_same_v<W, lg::atomic_guarded<Pod>>) {
                    Pod old = w->exchange(Pod{1, 1});
                    MC_CHECK(old.a == 0 && old.b == 0, "exchange-result", "exchange returned (%d,%d), expected the initial value", old.a, old.b);
                    Pod expect{1, 1};
                    bool ok = w->compare_exchange(expect, Pod{2, 2});
                    MC_CHECK(ok, "cas-result", "compare_exchange failed although the value equals the expected one");
                }
            }
        }));
        for (int id : ids) join(id);
    }
    Pod fin = w->load();
    MC_CHECK(fin.a == 2 && fin.b == 2, "lost-write", "final value (%d,%d) after the writes 1, 2", fin.a, fin.b);
    delete w;
}
inline bool operator==(const Pod& x, const Pod& y) { return x.a == y.a && x.b == y.b; }
template<class W>
void add_pod(const Options& o, std::vector<Item>& items, const std::string& name, int kinds)
{
    static const char* kn[] = {"store x2", "operator= x2", "exchange, compare_exchange"};
    for (int k = 0; k < kinds; k++) {
        Item it;
        it.name = name + " [trivially copyable payload] | load x2 | " + kn[k];
        it.body = [k] { pod_body<W>(k); };
        it.bounds = hx::tier_bounds(o, 3, 5);
        items.push_back(it);
    }
}
#endif

#if defined(MODE_C15)
// The register is the object, not its address: an object destroyed and another one constructed in the same storage
// (a local in a loop, a re-used slot) is a new register.  k modifications before and after the re-construction.
template<class W>
void reuse_body(int k)
{
    void* mem = operator new(sizeof(W));
    W* w = new (mem) W(Pod{5, 5});
    for (int i = 0; i < k; i++) w->store(Pod{10 + i, 10 + i});
    Pod v = w->load();
    MC_CHECK(v.a == (k ? 10 + k - 1 : 5) && v.a == v.b, "register-value", "load() returned (%d,%d) on the first object", v.a, v.b);
    int helper = spawn([w] { (void)w->load(); });
    join(helper);
    w->~W();
    w = new (mem) W(Pod{7, 7});
    for (int i = 0; i < k; i++) w->store(Pod{20 + i, 20 + i});
    int want = k ? 20 + k - 1 : 7;
    v = w->load();
    MC_CHECK(v.a == want && v.b == want, "register-value",
             "load() on an object constructed where another one had been destroyed returned (%d,%d), expected (%d,%d)", v.a, v.b, want, want);
    int h2 = spawn([w, want] {
        Pod x = w->load();
        MC_CHECK(x.a == want && x.b == want, "register-value", "load() by another thread returned (%d,%d), expected (%d,%d)", x.a, x.b, want, want);
    });
    join(h2);
    w->~W();
    operator delete(mem);
}
template<class W>
void add_reuse(const Options& o, std::vector<Item>& items, const std::string& name)
{
    for (int k = 0; k <= 2; k++) {
        Item it;
        it.name = name + " | construct, store x" + std::to_string(k) + ", load (two threads), destroy; construct in the same storage, store x" +
                  std::to_string(k) + ", load (two threads)";
        it.body = [k] { reuse_body<W>(k); };
        it.bounds = hx::tier_bounds(o, 1, 1);
        items.push_back(it);
    }
}
#endif
#if defined(MODE_C02) || defined(MODE_C01)
// Two wrappers of one type: a modification of A whose functor modifies B (nested, cross-object) while another thread
// reads B under a shared handle / through read().  Each object's own lock must be taken, whatever the nesting.
template<class W>
void nested_body(int reader_kind)
{
    hx::win_reset();
    W* A = new W(0);
    W* B = new W(0);
    {
        int t1 = spawn([A, B] {
            A->modify([B](Pair& x) {
                hx::WriteWin w(&x, "outer modify of A");
                ++x.a;
                B->modify([](Pair& y) {
                    hx::WriteWin w2(&y, "nested modify of B");
                    ++y.a;
                    point();
                    ++y.b;
                });
                ++x.b;
            });
        });
        int t2 = spawn([B, reader_kind] {
            if (reader_kind == 0) {
                auto h = B->lock_shared();
                (void)hx::read_pair(*h, "shared handle on B");
            } else if (reader_kind == 1) {
                B->modify([](Pair& y) {
                    hx::WriteWin w2(&y, "modify of B by another thread");
                    ++y.a;
                    point();
                    ++y.b;
                });
            } else {
                B->read([](const Pair& y) { (void)hx::read_pair(y, "read() of B"); });
            }
        });
        join(t1);
        join(t2);
    }
    int want = reader_kind == 1 ? 2 : 1;
    int vb = hx::read_pair(*B->lock_shared(), "final read of B");
    MC_CHECK(vb == want, "lost-update", "B is %d after %d modifications", vb, want);
    int va = hx::read_pair(*A->lock_shared(), "final read of A");
    MC_CHECK(va == 1, "lost-update", "A is %d after one modification", va);
    delete A;
    delete B;
}
template<class W>
void add_nested(const Options& o, std::vector<Item>& items, const std::string& name)
{
    static const char* kn[] = {"lock_shared on B", "modify of B", "read() of B"};
    for (int k = 0; k < 3; k++) {
        Item it;
        it.name = "two " + name + " objects | A.modify(functor calls B.modify) | " + kn[k];
        it.body = [k] { nested_body<W>(k); };
        it.bounds = hx::tier_bounds(o, 3, 6);
        items.push_back(it);
    }
}
#endif

void add_item(const Options& o, std::vector<Item>& items, const Prog& p, int Pq, int Pt)
{
    Item it;
    it.name = text(p);
    it.body = [p] { body(p); };
    it.bounds = hx::tier_bounds(o, Pq, Pt);
    items.push_back(it);
}

// all programs: T threads; `maxlen[t]` ops for thread t; over alphabet `al`
void gen(const Options& o, std::vector<Item>& items, int inst, const std::vector<OpI>& al, std::vector<int> lens, int Pq,
         int Pt, const std::function<bool(const Prog&)>& keep)
{
    // sequences per distinct length
    int T = (int)lens.size();
    std::vector<std::vector<std::vector<int>>> seqs(T);
    for (int t = 0; t < T; t++) {
        auto all = hx::sequences((int)al.size(), lens[t]);
        for (auto& s : all)
            if ((int)s.size() == lens[t]) seqs[t].push_back(s);
    }
    std::vector<int> idx(T, 0);
    std::function<void(int)> rec = [&](int t) {
        if (t == T) {
            // symmetry: threads with equal length must be in non-decreasing index order
            for (int a = 0; a + 1 < T; a++)
                if (lens[a] == lens[a + 1] && idx[a] > idx[a + 1]) return;
            Prog p;
            p.inst = inst;
            int sv = 5;
            for (int a = 0; a < T; a++) {
                std::vector<OpI> ops;
                for (int k : seqs[a][idx[a]]) {
                    OpI op = al[k];
                    if (op.arg == -1) op.arg = sv++;  // fresh value per writing op
                    ops.push_back(op);
                }
                p.threads.push_back(ops);
            }
            if (keep(p)) add_item(o, items, p, Pq, Pt);
            return;
        }
        for (int i = 0; i < (int)seqs[t].size(); i++) {
            idx[t] = i;
            rec(t + 1);
        }
    };
    rec(0);
}

void make_items(const Options& o, std::vector<Item>& items)
{
    bool thorough = o.tier == "thorough";
#if defined(MODE_C15)
    add_pod<lg::atomic_guarded<Pod>>(o, items, "atomic_guarded<Pod>", 3);
    add_pod<lg::guarded<Pod>>(o, items, "guarded<Pod>", 2);
    add_pod<lg::ordered_guarded<Pod, std::shared_mutex>>(o, items, "ordered_guarded<Pod,shared_mutex>", 2);
    add_reuse<lg::atomic_guarded<Pod>>(o, items, "atomic_guarded<Pod>");
    add_reuse<lg::guarded<Pod>>(o, items, "guarded<Pod>");
    add_reuse<lg::ordered_guarded<Pod, std::shared_mutex>>(o, items, "ordered_guarded<Pod,shared_mutex>");
#endif
#if defined(MODE_C02) || defined(MODE_C01)
    add_nested<lg::ordered_guarded<Pair, std::shared_mutex>>(o, items, "ordered_guarded<Pair,shared_mutex>");
    add_nested<lg::ordered_guarded<Pair, std::mutex>>(o, items, "ordered_guarded<Pair,mutex>");
#endif
    g_insts = all_instances();
    for (int ii = 0; ii < (int)g_insts.size(); ii++) {
        const Instance& in = g_insts[ii];
#if defined(MODE_C01)
        // exclusive side with locking enabled
        if (!in.enabled || in.deferred || in.name.rfind("atomic_guarded", 0) == 0) continue;
        std::vector<OpI> al;
        for (int c : {X_LOCK, X_LOCK_UNLOCK, X_TRY, X_TRY_FOR, X_TRY_UNTIL, LOAD, STORE, ASSIGN, MODIFY, MODIFY_RET, CONVERT, X_RETRY, X_HANDOVER, X_TRY_UNLOCK})
            if (in.has(c)) al.push_back(OpI{(uint8_t)c, (c == STORE || c == ASSIGN) ? -1 : 0});
        auto any = [](const Prog&) { return true; };
        gen(o, items, ii, al, {1, 1}, 3, 6, any);
        gen(o, items, ii, al, {1, 1, 1}, 3, 3, any);
        gen(o, items, ii, al, {2, 1}, 3, 4, any);
        if (thorough) {
            gen(o, items, ii, al, {2, 2}, 2, 3, any);
            gen(o, items, ii, al, {1, 1, 1, 1}, 2, 2, [](const Prog& p) {
                // four threads: at least one blocking and one try form
                int blocking = 0;
                for (auto& t : p.threads)
                    if (t[0].code == X_LOCK || t[0].code == STORE || t[0].code == MODIFY || t[0].code == LOAD) blocking++;
                return blocking >= 1 && blocking <= 3;
            });
        }
#elif defined(MODE_C02)
        if (!in.enabled || !in.has_shared_side) continue;
        std::vector<OpI> al;
        for (int c : {X_LOCK, X_TRY, X_TRY_FOR, STORE, MODIFY, MOD_DETACH, MOD_ASYNC, S_LOCK, S_TRY, S_TRY_FOR, S_TRY_UNTIL,
                      S_CONST_LOCK, READ, READ_RET, LOAD, S_RETRY, S_HANDOVER, S_TRY_UNLOCK})
            if (in.has(c))
                al.push_back(OpI{(uint8_t)c, (c == STORE || c == MOD_DETACH || c == MOD_ASYNC) ? -1 : 0});
        auto mixed = [](const Prog& p) {
            // at least one shared-side operation in the program
            for (auto& t : p.threads)
                for (auto& op : t)
                    if (is_shared_op(op.code) || op.code == LOAD) return true;
            return false;
        };
        gen(o, items, ii, al, {1, 1}, 3, 6, mixed);
        gen(o, items, ii, al, {1, 1, 1}, 2, 3, mixed);
        if (thorough) gen(o, items, ii, al, {2, 1}, 3, 3, mixed);
        else
            gen(o, items, ii, al, {2, 1}, 3, 3, [&](const Prog& p) {
                // quick: the two-op thread releases one kind of access and takes the other
                return mixed(p) && is_shared_op(p.threads[0][0].code) != is_shared_op(p.threads[0][1].code);
            });
        if (thorough) {
            // four threads x 1 op over a reduced alphabet (blocking / try / timed forms of both sides, queued writes)
            std::vector<OpI> al4;
            for (int c : {X_LOCK, X_TRY_FOR, STORE, MOD_DETACH, S_LOCK, S_TRY, S_TRY_FOR, READ})
                if (in.has(c)) al4.push_back(OpI{(uint8_t)c, (c == STORE || c == MOD_DETACH) ? -1 : 0});
            gen(o, items, ii, al4, {1, 1, 1, 1}, 2, 2, [&](const Prog& p) {
                int sh = 0;
                for (auto& t : p.threads) sh += is_shared_op(t[0].code);
                return sh >= 1 && sh <= 3;
            });
        }
        if (in.shared_capable && in.deferred) {
            // scale: a reader keeps its handle while another thread queues many modifications and then reads too: the
            // second reader is not blocked by the first one however long the queue is (must terminate), and the queued
            // writes are all applied, in order, by the time of the quiescent read
            for (int nq : {3, 10, 20}) {
                if (nq == 20 && !thorough) continue;
                Prog p;
                p.inst = ii;
                p.rendezvous = 1;
                p.scale = true;
                std::vector<OpI> t1;
                for (int k = 0; k < nq; k++) t1.push_back(OpI{MOD_DETACH, 5 + k});
                t1.push_back(OpI{S_LOCK, 0});
                p.threads = {{OpI{S_LOCK, 0}}, t1};
                add_item(o, items, p, 1, 2);
            }
        }
        if (in.shared_capable) {
            // sharing: two readers meet inside their shared sections; must terminate
            std::vector<int> forms;
            for (int c : {S_LOCK, S_TRY, S_TRY_FOR, S_TRY_UNTIL, S_CONST_LOCK})
                if (in.has(c)) forms.push_back(c);
            for (size_t a = 0; a < forms.size(); a++)
                for (size_t b = a; b < forms.size(); b++) {
                    Prog p;
                    p.inst = ii;
                    p.rendezvous = 1;
                    p.threads = {{OpI{(uint8_t)forms[a], 0}}, {OpI{(uint8_t)forms[b], 0}}};
                    add_item(o, items, p, 3, 6);
                }
        }
#elif defined(MODE_C15)
        bool atomicg = in.name.rfind("atomic_guarded", 0) == 0;
        bool lsinst = in.name.rfind("guarded<", 0) == 0 || in.name.rfind("guarded_opt<", 0) == 0 ||
            in.name.rfind("ordered_guarded<", 0) == 0;
        if (!atomicg && !lsinst && !in.deferred) continue;
        // one mutex type per wrapper suffices for the shared/deferred ones in the quick tier
        if (!thorough && !atomicg && in.name.find("timed_mutex") != std::string::npos &&
            in.name.find("shared_timed") == std::string::npos && in.name.rfind("guarded<", 0) != 0)
            continue;
        std::vector<OpI> al;
        if (in.has(LOAD)) al.push_back(OpI{LOAD, 0});
        if (in.has(CONVERT)) al.push_back(OpI{CONVERT, 0});
        for (int v = 1; v <= 2; v++) {
            if (in.has(STORE)) al.push_back(OpI{STORE, v});
            if (in.has(ASSIGN)) al.push_back(OpI{ASSIGN, v});
            if (in.has(EXCHANGE)) al.push_back(OpI{EXCHANGE, v});
            if (in.deferred) al.push_back(OpI{MOD_DETACH, v});
        }
        if (in.has(CAS))
            for (int e = 0; e <= 2; e++)
                for (int d = 0; d <= 2; d++)
                    if (e != d) al.push_back(OpI{CAS, e * 4 + d});
        auto any = [](const Prog&) { return true; };
        // sequential part: every operation sequence
        for (int len = 1; len <= (thorough ? 4 : 3); len++) {
            if (al.size() > 8 && len == 4) continue;
            gen(o, items, ii, al, {len}, 0, 0, any);
        }
        gen(o, items, ii, al, {1, 1}, 3, 6, any);
        gen(o, items, ii, al, {1, 1, 1}, 3, 3, any);
        auto reduced = [&](const Prog& p) {
            // quick: two-op thread against a single op, second op a reading one
            uint8_t c = p.threads[0][1].code;
            return c == LOAD || c == EXCHANGE || c == CAS || c == CONVERT;
        };
        if (thorough) gen(o, items, ii, al, {2, 1}, 3, 3, any);
        else if (al.size() <= 8) gen(o, items, ii, al, {2, 1}, 3, 3, reduced);
        // deferred_guarded: two generations of queued writes need two operations on each side
        if (!thorough && in.deferred) gen(o, items, ii, al, {2, 2}, 3, 3, any);
        if (thorough && al.size() <= 8) gen(o, items, ii, al, {2, 2}, in.deferred ? 3 : 2, in.deferred ? 3 : 2, any);
        if (thorough && al.size() <= 8) gen(o, items, ii, al, {1, 1, 1, 1}, 2, 2, any);
#endif
    }
}
}  // namespace

int main(int argc, char** argv)
{
#if defined(MODE_C01)
    return run_main(argc, argv, "C01", "C01", make_items);
#elif defined(MODE_C02)
    return run_main(argc, argv, "C02", "C02", make_items);
#else
    return run_main(argc, argv, "C15", "C15", make_items);
#endif
}
