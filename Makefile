setup:
	./verif setup
manifest:
	python3 tools/gen_manifest.py
.PHONY: setup manifest
