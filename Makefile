# setup builds the runtime and lets the machinery check itself (litmus tests, lock/condvar/time
# models, detectors) before any verdict is trusted
setup:
	./verif setup
	./verif selftest
selftest:
	./verif selftest
manifest:
	python3 tools/gen_manifest.py
.PHONY: setup selftest manifest
